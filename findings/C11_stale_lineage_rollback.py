"""Known finding (property C11): a refused forced edit changes lineage ids when the
component it touches already carried more than one lineage id.

How such a component arises with public calls only: `enable_features(["lineage_id"])`
re-numbers all lineage ids from 1; history entries recorded before still hold the old
numbers, and undoing one of them writes an old number next to the new ones.

Run:  PYTHONPATH=/repo/src /venv/bin/python findings/C11_stale_lineage_rollback.py
Exit 1 (AssertionError) while the finding is present.
"""

import warnings

import networkx as nx

from funtracks.data_model import SolutionTracks
from funtracks.exceptions import InvalidActionError
from funtracks.user_actions import UserAddEdge, UserDeleteEdge

warnings.simplefilter("ignore")

g = nx.DiGraph()
for n, t in [(1, 0), (2, 1), (4, 0), (5, 1), (6, 2), (7, 0), (8, 1), (9, 1)]:
    g.add_node(n, t=t, pos=[float(n), float(t)])
g.add_edges_from([(1, 2), (4, 5), (5, 6), (7, 8), (7, 9)])
tracks = SolutionTracks(g, ndim=3, time_attr="t", pos_attr="pos")


def lineages():
    return {n: tracks.get_lineage_id(n) for n in sorted(tracks.graph.nodes)}


print("start            ", lineages())
UserDeleteEdge(tracks, (5, 6))
UserDeleteEdge(tracks, (1, 2))
print("two edges deleted", lineages())
tracks.enable_features([tracks.features.lineage_key])  # re-numbers the lineages from 1
print("re-numbered      ", lineages())
tracks.undo()
tracks.undo()  # re-attaches 6 to 5 and gives it the lineage number 5 had BEFORE the re-numbering
before = lineages()
print("two undos        ", before, "<- 4, 5, 6 are connected and carry two lineage ids")
try:
    # 5 has a parent (4): force removes that edge first; then 7 turns out to have two children
    UserAddEdge(tracks, (7, 5), force=True)
    raise SystemExit("the edit was accepted?")
except InvalidActionError as e:
    print("refused:", e)
after = lineages()
print("after the refusal", after)
assert after == before, f"C11: a refused edit changed lineage ids: {before} -> {after}"
print("OK: the refused edit changed nothing")
