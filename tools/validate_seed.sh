#!/bin/bash
# tools/validate_seed.sh <seeded/ID-dir> [checks...]
# Validates one seeded change in a scratch worktree of /repo (outside /repo and /verif):
#  demo passes on the clean tree, patch applies, demo fails with it, unedited test suite
#  passes with it; then runs the given checks (default: the property named in meta.json)
#  against the scratch tree (FV_REPO) and prints one result line.
# The scratch worktree is removed at the end. Output: one line, also appended to $OUT if set.
set -u
D=$(readlink -f "$1"); shift
ID=$(basename "$D")
PROP=$(/venv/bin/python -c "import json,sys; print(json.load(open('$D/meta.json'))['property'])")
CHECKS=${@:-$PROP}
S=${FV_SCRATCH:-/tmp}/fv-val-$ID-$$
git -C /repo worktree add -q --detach "$S" HEAD || exit 3
cleanup() { git -C /repo worktree remove --force "$S" >/dev/null 2>&1; }
trap cleanup EXIT
cd "$S"
PYTHONPATH="$S/src" timeout 600 /venv/bin/python "$D/demo.py" >/dev/null 2>&1; dc=$?
if ! git apply "$D/patch.diff" 2>/dev/null; then echo "$ID $PROP PATCH-DOES-NOT-APPLY"; exit 3; fi
PYTHONPATH="$S/src" timeout 600 /venv/bin/python "$D/demo.py" >/dev/null 2>&1; dp=$?
tests="skipped"
if [ "${SKIP_TESTS:-0}" != "1" ]; then
  tests=$(PYTHONPATH="$S/src" /venv/bin/python -m pytest -q -p no:cacheprovider -n ${NTEST:-4} 2>&1 | tail -1 | sed 's/ in [0-9.]*s.*//')
fi
res=""
cd "${VERIF_DIR:-/verif}"
for c in $CHECKS; do
  t0=$(date +%s)
  out=$(FV_REPO="$S" FV_JOBS=${FV_JOBS:-16} ./check $c --tier ${TIER:-quick} --no-evidence 2>&1)
  rc=$?
  t1=$(date +%s)
  key=$(echo "$out" | grep -o "key=[^ ]*" | head -2 | tr '\n' ' ')
  case $rc in 1) if echo "$out" | grep -q "^VIOLATION property="; then v=CAUGHT; else v="CRASHED($(echo "$out" | tail -1 | cut -c1-60))"; fi;; 0) v=MISSED;; *) v="INCONCL($(echo "$out" | grep -o 'reason=[^ ]*' | head -1))";; esac
  res="$res | $c $v $((t1-t0))s $key"
done
line="$ID $PROP demo_clean=$dc demo_patched=$dp tests=[$tests]$res"
echo "$line"
[ -n "${OUT:-}" ] && echo "$line" >> "$OUT"
