#!/usr/bin/env python3
"""tools/floor_audit.py  - reads evidence/*.json and prints every coverage floor whose measured
counter is less than MARGIN x the floor (floors must be exceeded by a wide margin on the
unchanged tree for every seed, otherwise a check turns INCONCLUSIVE by chance)."""
import glob
import json
import sys

MARGIN = float(sys.argv[1]) if len(sys.argv) > 1 else 3.0
for f in sorted(glob.glob("evidence/*.json")):
    d = json.load(open(f))
    cov = d["coverage"]
    floors, counters = cov.get("floors", {}), cov.get("counters", {})
    for k, need in floors.items():
        got = counters.get(k, 0)
        if got < MARGIN * need:
            print(f"{d['property_id']} tier={d['tier']} seed={d['seed']} {k}: {got} vs floor {need} "
                  f"(x{got / need if need else 0:.1f})")
