#!/bin/bash
# tools/try_seed.sh <patch.diff> <demo.py> [checks...]
# Validates a seeded change in a scratch worktree of /repo (outside /repo and /verif):
#  - the patch applies, the unedited test suite passes with it,
#  - the demonstration fails with it and passes without it,
#  - runs the given quick checks (default: all 20) against the scratch tree via FV_REPO
#    and prints which of them report a VIOLATION.
# The scratch worktree is removed at the end.
set -u
PATCH=$(readlink -f "$1"); DEMO=$(readlink -f "$2"); shift 2
CHECKS=${@:-C01 C02 C03 C04 C05 C06 C07 C08 C09 C10 C11 C12 C13 C14 C15 C16 C17 C18 C19 C20}
S=${FV_SCRATCH:-/tmp}/fv-try-$$
git -C /repo worktree add -q --detach "$S" HEAD || exit 3
cleanup() { git -C /repo worktree remove --force "$S" >/dev/null 2>&1; }
trap cleanup EXIT
cd "$S"
echo "== demo on clean tree"
PYTHONPATH="$S/src" /venv/bin/python "$DEMO" >/dev/null 2>&1; echo "demo(clean) exit=$?"
git apply "$PATCH" || { echo "PATCH DOES NOT APPLY"; exit 3; }
echo "== demo with patch"
PYTHONPATH="$S/src" /venv/bin/python "$DEMO" >/dev/null 2>&1; echo "demo(patched) exit=$?"
if [ "${SKIP_TESTS:-0}" != "1" ]; then
  echo "== test suite with patch"
  PYTHONPATH="$S/src" /venv/bin/python -m pytest -q -p no:cacheprovider -x -n 8 2>&1 | tail -1
fi
echo "== checks against patched tree"
cd /verif
for c in $CHECKS; do
  out=$(FV_REPO="$S" ./check $c --tier ${TIER:-quick} --no-evidence 2>&1)
  verdict=$(echo "$out" | tail -1 | cut -d' ' -f1)
  keys=$(echo "$out" | grep -o "key=[^ ]*" | sort -u | head -4 | tr '\n' ' ')
  echo "$c $verdict $keys"
done
