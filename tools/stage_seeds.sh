#!/bin/bash
# tools/stage_seeds.sh <worktree-prefix> <letterA> <letterB>  e.g. /tmp/seed2-C C D
# copies seedA/B.diff, demoA/B.py and meta.json of finished sub-agents into seeded/<prop>-<letter>/
pre=$1; LA=$2; LB=$3
cd "$(dirname "$0")/.."
for i in $(seq -w 1 20); do
  s=$pre$i
  [ -f $s/meta.json ] || continue
  for pair in "A:$LA" "B:$LB"; do
    X=${pair%%:*}; L=${pair##*:}
    [ -f $s/seed$X.diff ] || continue
    d=seeded/C$i-$L
    [ -d $d ] && continue
    mkdir -p $d; cp $s/seed$X.diff $d/patch.diff; cp $s/demo$X.py $d/demo.py
    /venv/bin/python - <<PY
import json
m=json.load(open("$s/meta.json"))
x=m.get("$X",{})
json.dump({"property":"C$i","breaks":"C$i","variant":"$L","origin":"independent sub-agent (round for prefix $pre) given only the property text, the summaries of earlier rounds' changes to avoid, and its own worktree","summary":x.get("summary"),"needs":x.get("needs"),"files":x.get("files"),"validated":None}, open("$d/meta.json","w"), indent=1)
PY
    echo staged $d
  done
done
