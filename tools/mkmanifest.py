#!/usr/bin/env python3
"""Regenerates MANIFEST.json and known_findings.json from the tables below."""
import json
from pathlib import Path

V = Path(__file__).resolve().parent.parent

CHECKS = {
 "C01": ("runtime invertibility monitor: every accepted edit is inverted (inverse() / undo()) and re-inverted inside the session, canonical states compared", "exactness of inverses on all generated (state, edit) pairs incl. primitives; held on the observed executions only", "state = every registered feature, every other stored attribute and the bit-exact label array; small forests (<= ~30 nodes), sessions <= 30 steps, history-walk scenarios injected"),
 "C02": ("reference-model monitor (list+cursor timeline) fed by the recorded call trace; bounded-exhaustive words + sampled long words", "every undo/redo/edit of all words up to the bound and of sampled long words agreed with the timeline model", "model compares canonical states; edit slots are resolved deterministically per state"),
 "C03": ("runtime invariant monitor + independent refusal predictor over shimmed real actions; all-pairs UserAddEdge sweeps on deep copies; sessions end with a bulk id re-computation or save+load followed by adds on freshly issued ids", "forest invariant and refusal/force clause held after every observed call", "small forests; refusals for non-structural reasons not judged"),
 "C04": ("runtime invariant monitor: own union-find partition oracle + frame clause with an own history model", "partition oracle and frame clause held at construction and after every observed call", "track-id feature enabled; small forests"),
 "C05": ("runtime invariant monitor: own union-find component oracle + frame clause with an own history model; lineage feature switched off / on (bulk re-computation judged like a construction)", "component oracle and frame clause held at construction and after every observed call", "lineage feature enabled; small forests"),
 "C06": ("runtime monitor comparing lookup tables and queries with a scan of the graph after every call (presence queries before any neighbour query, which sorts in place); freshness of issued ids incl. 'a newly appearing id labels one segment / component'", "all lookup/query comparisons agreed with the scan on the observed states", "preservation form per clause; track ids below a few hundred"),
 "C07": ("runtime invariant monitor (label/node bijection, get_pixels) + paint driver comparing arrays bit for bit after edit, undo, redo + list-plus-cursor timeline of the label array through every undo/redo of the session", "bijection and paint exactness held on all observed strokes and edits", "strokes within one frame with label 0 / node of the frame / unused"),
 "C08": ("runtime monitor: every enabled regionprops value vs. plain numpy and vs. two from-scratch computations (whole frame, node's own mask alone) after every call; feature toggles, scripted stale-value scenario, primitives", "all value comparisons agreed on the observed states", "2-D anisotropic perimeter/circularity excluded (scikit-image raises NotImplementedError); values judged only while their feature is enabled"),
 "C09": ("runtime monitor: every edge IoU vs. numpy overlap after every call + differential bulk recomputation on a deep copy", "all edge comparisons (skip and consecutive, bulk and incremental) agreed", "values judged only while iou is enabled"),
 "C10": ("reference-model monitor (set of enabled keys) over sessions mixing enable/disable with edits; value references of C04/C05/C08/C09", "registry, activation, values after recomputation, frozen disabled values, KeyError/ValueError clauses held on the observed sequences", "track_id toggled only in edit-free windows; lineage_id also switched off alone while edits run"),
 "C11": ("shim-level monitor on the raise path of every top-level user action: deep state before/after + emission count; generated sessions plus the repository's own test-suite as workload (pytest plugin)", "every observed refusal (all raise sites reached) left the deep state unchanged and emitted nothing, except the one recorded finding (known_findings.json, DESIGN.md 8.6: lineage ids of a component that already carried several lineage ids), which is re-observed on every run and printed as KNOWN-FINDING", "any exception from a user-action constructor counts as refusal; paint driver restores exactly the painted pixels"),
 "C12": ("differential oracle on generated tables/GEFF stores incl. malformed variants, through the real importers", "all well-formed imports reproduced the source row by row; all malformed variants raised ValueError", "GEFF malformations are written into the zarr arrays directly; invalid supplied track ids are not judged"),
 "C13": ("icontract postcondition on the real relabel_segmentation + end-to-end import compared with an element-wise expected array", "all generated (time, seg id) -> node id assignments produced the expected array and a consistent graph shift", "each (time, seg id) referenced by at most one node"),
 "C14": ("round-trip oracle on session end states through the real exporters/importers (CSV x2 headers, GEFF, internal)", "all observed states survived all routes with equal nodes, edges, times, positions, track ids, loaded features, segmentation, scale, registry", "explicit corresponding name maps; an import refused by the importer's one-pixel sample check is excused only if some node's centroid pixel really lies outside its mask in the written state; CSV cannot tell '' / NaN from a missing value"),
 "C15": ("icontract postcondition on the real filter_graph_with_ancestors over all subsets of small forests + read-back of CSV/GEFF subset exports", "closure postcondition held on every subset of every generated forest <= 8 nodes; exports matched the closure", "exports sampled, not exhaustive; export rounds repeated on the same object after accepted edits; movies longer than one 64-frame chunk included"),
 "C16": ("deep-snapshot monitor (graph and graph-level attributes, every stored attribute, array bytes + writeable flag + dtype, scale, registry, activation, lookup tables, counters, history identities) around read-only operations at random quiescent points of sessions and around every export/save call of the repository's own tests (pytest plugin)", "no observed export/save/query changed the deep state or emitted refresh", "order inside lookup lists is not state"),
 "C17": ("icontract postconditions on the real inference functions; exhaustive over short lists of a confusable vocabulary + random lists + the repository's import/export tests run with the contracts attached", "postconditions held on every enumerated and sampled column list", "vocabulary-bounded; column names distinct"),
 "C18": ("brute-force oracle on generated label arrays / point lists incl. frame gaps and radii exactly on pair distances", "node sets, attributes, edge sets and IoU attributes matched the brute-force reference on all cases", "time scale 1; pairs within 1e-9 of the radius are don't-care unless arithmetic is exact"),
 "C19": ("icontract postcondition on the real ensure_unique_labels + partition oracle for relabel_segmentation_with_track_id", "postcondition / oracle held on all generated arrays and solutions", "label values fit the dtype"),
 "C20": ("offline trace checker over recorded call windows (emissions with nesting depth, order vs. primitives, payload) with an own history model for 'something to step to'; generated sessions plus the repository's own tests as workload", "exactly-once emission law held on every observed window", "a stroke that changes no pixel either makes no call or (label 0 over background) reaches the action as an empty step; undo/redo/paint also routed through the deprecated TracksController"),
}

FIXED = [
 ("C03", "6507deb", "C03/refusal/UserAddEdge/non-forward", "UserAddEdge accepted backward, same-frame and self edges (no time check): non-forward edges, cycles, endless id walk"),
 ("C01", "fc26dea", "C01/inverse-raised/UserDeleteNode", "per-axis position features were never registered, so undoing a node deletion raised 'Must provide position' (pos_attr given as list)"),
 ("C05", "c1bb768", "C05/partition/UserAddEdge/(UpdateTrackIDs,AddEdge)", "UserAddEdge creating a division left the target subtree with its old lineage id"),
 ("C05", "a8d9543", "C05/partition/UserDeleteEdge/(DeleteEdge,UpdateTrackIDs)", "UserDeleteEdge on a division edge left the detached subtree with the parent's lineage id"),
 ("C05", "9d88b0f", "C05/partition/UserDeleteNode", "UserDeleteNode of a dividing node / first node after a division / root with two children left unconnected subtrees with one lineage id"),
 ("C09", "7c26299", "C09/iou-skip/bulk", "bulk IoU computation stored 0 for every frame-skipping edge (frames t and t+1 only)"),
 ("C11", "ede2f48", "C11/changed", "UserAddNode, forced UserAddEdge and multi-label UserUpdateSegmentation raised after sub-edits were applied and left the partial edit behind"),
 ("C11", "4faaa4e", "C11/changed/UserUpdateSegmentation/InvalidActionError", "re-adding a deleted node/edge (undo, rollback of a refused action) lost attributes that are not registered features (DeleteNode/DeleteEdge saved registered features only)"),
 ("C16", "4356cd5", "C16/changed/export_to_geff", "export_to_geff set tracks.scale when it was None"),
 ("C17", "4065272", "C17/column-lost", "inferred name maps dropped a column when two columns matched the same feature or a custom column was spelled like an already mapped key"),
 ("C18", "a9b028b", "C18/edges", "add_cand_edges kept an old KD-tree across frames without detections: links across the gap, missing links after it; IndexError for no detections at all"),
 ("C19", "53e35e5", "C19/unique/label-repeated/after-empty-frame", "ensure_unique_labels reset its offset on an all-background frame, so labels repeated after it"),
 ("C13", "eeccb2f", "C13/import/array/ids-equal-labels/unlisted", "import with seg ids equal to node ids returned the source array unchanged, keeping labels no node refers to"),
 ("C12", "060ae85", "C12/df/raised/str/renamed-id", "CSV import applied the id checks/conversion to columns literally named id/parent_id before renaming (string ids under other column names failed); unknown string parent ids were silently dropped"),
 ("C14", "e3ab9e1", "C14/geff/raised/AttributeError", "undoing the update of a new attribute stored an explicit None, on which export_to_geff crashes"),
 ("C14", "2140c11", "C14/csv-display/raised/AttributeError", "CSV import crashed (AttributeError in geff_spec) on a property column whose first cell is empty"),
 ("C11", "754c0d9", "C11/changed/UserAddNode/ValueError/(AddNode)", "with 3-D ellipse_axis_radii enabled, adding or painting a flat/collinear mask raised ValueError 'math domain error' from inside the regionprops annotator (sqrt of a rounding-negative moment) after the primitive had already written node, pixels and attributes; the refused UserAddNode / UserUpdateSegmentation left them behind"),
 ("C05", "c3095d7", "C05/partition/UserAddNode/(DeleteEdge,AddNode,AddEdge,AddEdge)", "UserAddNode wrote the lineage id it determined into the caller's attributes dict; a caller re-using the dict for the next node passed that lineage id to an unconnected node (two components, one lineage id); the same aliasing made undo of later edits inexact"),
 ("C04", "9aae0c4", "C04/partition/UserAddNode/(AddNode)", "SolutionTracks.from_tracks on a Tracks object without nodes left the track / lineage id features switched off (nothing to inspect, registry of the plain Tracks taken over): later edits gave two nodes of one frame the same track id and the id lookups stayed empty; first seen by the C14 round-trip check on a session that started from an empty from_tracks solution"),
 ("C14", "db4f8a4", "C14/csv-display/raised/AssertionError", "export_to_csv(use_display_names=True) failed with AssertionError as soon as one node had no value for an optional multi-value feature (registered custom two-valued feature with gaps)"),
 ("C14", "e1e7d61", "C14/csv-display/feature/tag", "CSV round trip of a registered text feature: nodes without a value came back with the string 'nan' (empty cells of a pandas string-dtype column were not recognised as missing)"),
]

# genuine defects recorded, not repaired (DESIGN.md §8.6): (property, mechanism key, what, demo)
KNOWN = [
 ("C11", "C11/lineage-only/component-had-several-lineage-ids-before-the-call",
  "a refused composite action (forced UserAddEdge / UserAddNode that fails after sub-edits) is rolled back through "
  "UpdateTrackIDs.inverse(), which writes ONE lineage id to the whole downstream subtree: when the subtree carried "
  "several lineage ids before the call (undo of a history entry recorded before enable_features re-numbered the "
  "lineage ids), the refused call changes lineage-id values - and nothing else",
  "findings/C11_stale_lineage_rollback.py"),
]


def main():
    checks = []
    for pid, (tech, text, note) in CHECKS.items():
        checks.append({
            "property_id": pid,
            "quick_cmd": f"./check {pid} --tier quick",
            "thorough_cmd": f"./check {pid} --tier thorough",
            "evidence_file": f"evidence/{pid}.json",
            "replay_cmd_template": f"./check {pid} --replay {{path}}",
            "engine": "fv",
            "level_claimed": {"category": "exploration", "text": text, "design_ref": f"DESIGN.md §3 {pid}, §8"},
            "level_note": note,
            "technique": tech,
        })
    m = {
        "version": 1,
        "setup_cmd": "./setup.sh",
        "hooks": {
            "guard": "FUNTRACKS_VERIF",
            "enable": "no in-repo hooks: with FUNTRACKS_VERIF=1 the harness (fv/shim.py) wraps methods of the real classes at run time; /repo/src (or $FV_REPO/src) is imported directly, nothing to build",
            "baseline_off_cmd": "cd /repo && env -u FUNTRACKS_VERIF /venv/bin/python -m pytest -ra -q -p no:cacheprovider --timeout=900 --continue-on-collection-errors",
            "source_commits": [],
            "add_only": True,
        },
        "engines": [{"name": "fv", "path": "fv/", "serves_properties": sorted(CHECKS), "kind_free_text": "runtime monitoring: shim on the real classes (call/return events, nesting depth, history registrations, refresh emissions, primitive applications), session driver with hostile generated workloads, invariant monitors at quiescent points, reference-model monitors, offline trace checkers, icontract postconditions on pure functions"}],
        "checks": checks,
        "notes": "Repairs of genuine defects are unguarded 'fix:' commits in /repo, listed in known_findings.json (status fixed); one genuine defect is recorded there as status known (C11, DESIGN.md 8.6). No property is left to a different technique.",
        "not_applicable": [],
    }
    (V / "MANIFEST.json").write_text(json.dumps(m, indent=1) + "\n")
    kf = {
        "_comment": "Genuine defects of funkelab/funtracks found by the monitors. status=known entries print KNOWN-FINDING and do not fail a run; status=fixed entries suppress nothing. Keys are mechanism signatures (monitor clause / action / branch), never seeds or hashes. Never written at run time.",
        "findings": [
            {"property": p, "status": "fixed", "commit": c, "key": k,
             "what": f"fixed: property={p} {c} {w}"} for p, c, k, w in FIXED
        ] + [
            {"property": p, "status": "known", "key": k, "what": w, "demo": d}
            for p, k, w, d in KNOWN
        ],
    }
    (V / "known_findings.json").write_text(json.dumps(kf, indent=1) + "\n")

if __name__ == "__main__":
    main()
