#!/bin/bash
# MANIFEST.setup_cmd: offline installation of the contract libraries into .deps
cd "$(dirname "$0")"
export PYTHONPATH="$(pwd)"
/venv/bin/python -c "from fv import env; env.ensure_deps(); env.bootstrap(need_contracts=True); import icontract, deal; print('deps ok')"
