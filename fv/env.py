"""Bootstrap: make the harness import funtracks from the tree under test and make the
contract libraries available offline.

FV_REPO selects the tree (default /repo); the harness asserts that the imported package
really lives there, so the same code runs against scratch copies when the monitors are
validated against seeded changes.
"""

from __future__ import annotations

import fcntl
import os
import subprocess
import sys
from pathlib import Path

VERIF = Path(__file__).resolve().parent.parent
REPO = Path(os.environ.get("FV_REPO", "/repo")).resolve()
DEPS = VERIF / ".deps"
WORK = VERIF / ".work"
WHEELS = "/opt/veriftools/wheels"
GUARD = "FUNTRACKS_VERIF"

_booted = False


def ensure_deps() -> None:
    """Install icontract/deal into the git-ignored .deps directory if missing."""
    if (DEPS / "icontract").is_dir() and (DEPS / "deal").is_dir():
        return
    DEPS.mkdir(exist_ok=True)
    lock = open(VERIF / ".deps.lock", "w")
    try:
        fcntl.flock(lock, fcntl.LOCK_EX)
        if (DEPS / "icontract").is_dir() and (DEPS / "deal").is_dir():
            return
        subprocess.run(
            [
                sys.executable,
                "-m",
                "pip",
                "install",
                "--quiet",
                "--no-index",
                "--find-links",
                WHEELS,
                "--target",
                str(DEPS),
                "icontract",
                "deal",
            ],
            check=True,
            stdout=subprocess.DEVNULL,
            stderr=subprocess.DEVNULL,
        )
    finally:
        fcntl.flock(lock, fcntl.LOCK_UN)
        lock.close()


def bootstrap(need_contracts: bool = False) -> None:
    global _booted
    if _booted:
        return
    os.environ[GUARD] = "1"
    os.environ.setdefault("PYTHONHASHSEED", "0")
    src = str(REPO / "src")
    # the editable install's .pth already lists /repo/src; putting the selected tree
    # first makes FV_REPO win
    if src in sys.path:
        sys.path.remove(src)
    sys.path.insert(0, src)
    if need_contracts:
        ensure_deps()
    # appended, so that the venv's own typing_extensions / six stay in front
    if str(DEPS) not in sys.path:
        sys.path.append(str(DEPS))
    import warnings

    warnings.filterwarnings("ignore")
    import funtracks

    where = str(Path(funtracks.__file__).resolve())
    if not where.startswith(src):
        raise RuntimeError(f"funtracks imported from {where}, expected under {src}")
    _booted = True


def workdir(tag: str) -> Path:
    """Scratch directory under /verif/.work (never /tmp); caller removes it."""
    d = WORK / f"{os.getpid()}-{tag}"
    d.mkdir(parents=True, exist_ok=True)
    return d
