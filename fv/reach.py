"""Reach report: which statement lines of the funtracks sources did a workload execute?

Uses sys.monitoring (3.12+) LINE events with DISABLE after the first hit of every location,
so the cost is a few percent. The report is evidence about the *workload* (what the monitors
had a chance to observe), never a verdict: an anchored line that no execution reached is a
place where a property could be broken without any monitor noticing.
"""

from __future__ import annotations

import sys
from pathlib import Path

TOOL = 3  # sys.monitoring tool id (0-5); 3 is unused by debuggers/coverage/profilers
_hits: dict[str, set[int]] = {}
_prefix = ""
_on = False


def start(src_root: str) -> bool:
    """Begin recording executed lines of files under src_root/funtracks."""
    global _prefix, _on
    mon = getattr(sys, "monitoring", None)
    if mon is None or _on:
        return _on
    _prefix = str(Path(src_root) / "funtracks") + "/"
    try:
        mon.use_tool_id(TOOL, "fv-reach")
    except ValueError:
        return False

    def on_line(code, line):
        fn = code.co_filename
        if fn.startswith(_prefix):
            s = _hits.get(fn)
            if s is None:
                s = _hits[fn] = set()
            s.add(line)
        return mon.DISABLE

    mon.register_callback(TOOL, mon.events.LINE, on_line)
    mon.set_events(TOOL, mon.events.LINE)
    _on = True
    return True


def snapshot() -> dict[str, list[int]]:
    """Executed lines per file, paths relative to the funtracks package."""
    return {fn[len(_prefix):]: sorted(ls) for fn, ls in _hits.items()}


def executable_lines(path: Path) -> set[int]:
    """Lines that carry code according to the compiler (function bodies included)."""
    try:
        code = compile(path.read_text(), str(path), "exec")
    except Exception:
        return set()
    out: set[int] = set()
    stack = [code]
    while stack:
        c = stack.pop()
        for _, _, ln in c.co_lines():
            if ln is not None and ln > 0:
                out.add(ln)
        for k in c.co_consts:
            if hasattr(k, "co_lines"):
                stack.append(k)
    return out


def report(src_root: str, merged: dict[str, set[int]], anchors: list[str]) -> dict:
    """Per anchored file: executed / executable statement lines, and the unreached ones with
    their source text (truncated) so that a reader sees which branches no run drove."""
    base = Path(src_root) / "funtracks"
    rep = {}
    for a in anchors:
        rel = a.split("src/funtracks/")[-1]
        p = base / rel
        if not p.is_file():
            continue
        exe = executable_lines(p)
        got = merged.get(rel, set()) & exe
        text = p.read_text().splitlines()
        missing = sorted(exe - got)
        # docstring-only / decorator / def lines executed at import time are in `got` anyway
        rep[rel] = {
            "executed": len(got),
            "executable": len(exe),
            "unreached": [f"{ln}: {text[ln - 1].strip()[:90]}" for ln in missing[:60]],
            "unreached_total": len(missing),
        }
    return rep
