"""pytest plugin: the repository's own test-suite as an additional *workload* for the
relational, precondition-free monitors.

Loaded with `-p fv.pytest_plugin` (PYTHONPATH must contain /verif). Nothing in the tests is
edited; the plugin wraps methods of the real classes before the test modules are imported:

* C11  every top-level user action that raises must leave the deep state unchanged and emit
       nothing (UserUpdateSegmentation is skipped: its caller has painted the array and the
       tests do not restore it);
* C20  successful top-level user action / undo / redo -> exactly one refresh emission,
       raise or `False` -> none (calls made with `_top_level=False` are skipped);
* C16  export_to_csv / export_to_geff / save_tracks / filter_graph_with_ancestors leave the
       deep state (incl. fresh-id counters) unchanged;
* C17, C15, C13, C19  the icontract postconditions of the pure functions.

State invariants (forest shape, id partitions, label bijection) are deliberately NOT imposed:
tests build odd states on purpose. Results go to $FV_PLUGIN_OUT as JSON; the plugin never
makes a test fail.
"""

from __future__ import annotations

import functools
import json
import os
import warnings

from . import env

RES = {"windows": {}, "violations": [], "errors": 0, "tests": 0, "contracts": {}}
CUR = {"test": "?"}


def _count(k, n=1):
    RES["windows"][k] = RES["windows"].get(k, 0) + n


def _viol(prop, clause, what, key):
    if len(RES["violations"]) < 200:
        RES["violations"].append({"property": prop, "clause": clause, "what": what[:600],
                                  "key": key, "test": CUR["test"]})


class Observer:
    errors = 0

    def before(self, name, obj, a, k):
        from . import shim
        from .canon import deep

        if name in ("undo", "redo"):
            tracks = obj
            top = True
        else:
            tracks = a[0] if a else k.get("tracks")
            top = k.get("_top_level", True)
        if tracks is None or not hasattr(tracks, "refresh") or not hasattr(tracks, "features"):
            return None
        shim.attach_keep(tracks)
        pre = None
        if name != "UserUpdateSegmentation":
            with warnings.catch_warnings():
                warnings.simplefilter("ignore")
                pre = deep(tracks)
            # C11 speaks about states reachable from a valid solution; tests also build
            # deliberately invalid ones (triple divisions, raw graph edits)
            from . import checks

            if checks.forest(tracks):
                pre = None
                _count("C11-skipped-invalid-pre-state")
        return {"tracks": tracks, "pre": pre, "mark": shim.REC.mark(), "top": top}

    def after(self, name, tok, exc, ret):
        from . import shim
        from .canon import deep, diff, diff_sections

        tracks = tok["tracks"]
        window = shim.REC.window(tok["mark"])
        emits = [e for e in window if e[0] == "emit"]
        nprim = sum(1 for e in window if e[0] == "prim")
        if exc is not None:
            _count(f"raised-{name}")
            if tok["pre"] is not None:
                with warnings.catch_warnings():
                    warnings.simplefilter("ignore")
                    post = deep(tracks)
                _count("C11-comparisons")
                if post != tok["pre"]:
                    _viol("C11", "refused-edit-changed-state",
                          f"{name} raised {type(exc).__name__} ({exc}) after {nprim} sub-edits; "
                          f"changed {diff_sections(tok['pre'], post)}: "
                          f"{diff(tok['pre'], post)[:4]}",
                          f"C11/changed/{name}/{type(exc).__name__}/pytest")
            _count("C20-comparisons")
            if emits:
                _viol("C20", "emission-count", f"{name} raised {type(exc).__name__} but emitted "
                      f"{len(emits)} refresh", f"C20/count/{name}/refused/{len(emits)}/pytest")
            return
        _count(f"ok-{name}")
        if not tok["top"]:
            _count("skipped-not-top-level")
            return
        if name in ("undo", "redo"):
            expect = 1 if ret is True else 0
        else:
            expect = 1
        _count("C20-comparisons")
        if len(emits) != expect:
            _viol("C20", "emission-count", f"{name} (returned {ret!r}) emitted refresh "
                  f"{len(emits)}x, expected {expect}",
                  f"C20/count/{name}/{'ok' if expect else 'nothing-to-do'}/{len(emits)}/pytest")


def _wrap_readonly(mod, name, label):
    from .canon import deep, diff, diff_sections

    orig = getattr(mod, name)
    if getattr(orig, "_fv_wrapped", False):
        return orig

    @functools.wraps(orig)
    def wrapped(*a, **k):
        tracks = a[0] if a else k.get("tracks")
        pre = None
        if hasattr(tracks, "features") and hasattr(tracks, "action_history"):
            try:
                with warnings.catch_warnings():
                    warnings.simplefilter("ignore")
                    pre = deep(tracks, counters=True)
            except Exception:
                RES["errors"] += 1
        try:
            return orig(*a, **k)
        finally:
            if pre is not None:
                try:
                    with warnings.catch_warnings():
                        warnings.simplefilter("ignore")
                        post = deep(tracks, counters=True)
                    _count(f"C16-{label}")
                    _count("C16-comparisons")
                    if post != pre:
                        _viol("C16", "read-only-changed-state",
                              f"{label} changed {diff_sections(pre, post)}: "
                              f"{diff(pre, post)[:4]}",
                              f"C16/changed/{label}/{'+'.join(diff_sections(pre, post))}/pytest")
                except Exception:
                    RES["errors"] += 1

    wrapped._fv_wrapped = True
    setattr(mod, name, wrapped)
    return wrapped


def pytest_configure(config):
    env.bootstrap(need_contracts=True)
    from . import shim

    shim.install()
    shim.OBSERVERS.append(Observer())
    import funtracks.import_export as ie
    import funtracks.import_export.csv._export as ce
    import funtracks.import_export.geff._export as ge
    import funtracks.import_export.internal_format as inf

    w = _wrap_readonly(ce, "export_to_csv", "export_to_csv")
    ie.export_to_csv = w
    w = _wrap_readonly(ge, "export_to_geff", "export_to_geff")
    ie.export_to_geff = w
    w = _wrap_readonly(inf, "save_tracks", "save_tracks")
    ie.save_tracks = w
    # pure-function contracts (each module rebinds the names the library itself uses)
    try:
        from .props import c13, c15, c17, c19

        import funtracks.import_export._name_mapping as nm
        import funtracks.utils as fu
        import funtracks.utils._segmentation_utils as su

        node, edge = c17.contracted()
        nm.infer_node_name_map, nm.infer_edge_name_map = node, edge
        c15.contracted()
        c13.contracted()
        uniq = c19.contracted_unique()
        su.ensure_unique_labels = uniq
        fu.ensure_unique_labels = uniq
        RES["contracts"]["installed"] = ["C13", "C15", "C17", "C19"]
        RES["_mods"] = True
    except Exception as e:  # a renamed function makes the contract inapplicable, not the run
        RES["contracts"]["install_error"] = repr(e)


def pytest_runtest_setup(item):
    CUR["test"] = item.nodeid
    RES["tests"] += 1


def pytest_runtest_makereport(item, call):
    # a contract that fires inside a test surfaces as PostBroken / ViolationError there
    if call.excinfo is not None and call.when == "call":
        n = type(call.excinfo.value).__name__
        if n in ("PostBroken", "ViolationError"):
            mod = type(call.excinfo.value).__module__
            prop = {"fv.props.c13": "C13", "fv.props.c15": "C15", "fv.props.c17": "C17",
                    "fv.props.c19": "C19"}.get(mod, "C17")
            _viol(prop, "contract", f"{n}: {str(call.excinfo.value)[:300]}",
                  f"{prop}/contract/pytest")


def pytest_sessionfinish(session, exitstatus):
    out = os.environ.get("FV_PLUGIN_OUT")
    RES.pop("_mods", None)
    try:
        from .props import c13, c15, c17, c19

        RES["contracts"]["evaluations"] = {
            "C13": c13.STATS.get("post", 0), "C15": c15.STATS.get("post", 0),
            "C17": c17.STATS.get("evals", 0),
            "C19": c19.STATS.get("post", 0)}
    except Exception:
        pass
    from . import shim

    RES["errors"] += sum(getattr(o, "errors", 0) for o in shim.OBSERVERS)
    RES["entries"] = dict(shim.REC.entries)
    RES["pytest_exitstatus"] = int(exitstatus)
    if out:
        # with xdist every worker writes its own file
        wid = os.environ.get("PYTEST_XDIST_WORKER", "main")
        with open(f"{out}.{wid}.json", "w") as f:
            json.dump(RES, f, default=repr)
