"""C13 - relabelling on import moves each mask to its node id pixel-exactly."""

from __future__ import annotations

import random
import warnings

import networkx as nx
import numpy as np

from .. import gen
from . import common

PROP = "C13"
LEVEL = "exploration"
RULE = (
    "random label arrays (2-D+t, 3-D+t) whose label values are reused across frames, with node "
    "ids that equal other labels, permutation cycles (label a -> id b, label b -> id a), "
    "unlisted labels and node id 0; expected = zeros, expected[t][src[t]==seg_id] = node_id "
    "(+1 for all ids if 0 is an id), compared element-wise with (i) relabel_segmentation "
    "called directly (icontract postcondition on the real function, incl. the consistent shift "
    "of the graph) and (ii) tracks_from_df(df, segmentation) end to end (nodes, edges, times "
    "and the array). Non-trivial = at least one label whose node id differs; distinct = (ndim, "
    "id scheme, has unlisted labels, has id 0, route)"
)
ASSUMPTIONS = ["each (time, seg id) is referenced by at most one node",
               "positions given to the importer are pixels inside the mask (its sample check)"]

STATS = {"post": 0}


class PostBroken(Exception):
    pass


def expected_array(src, node_ids, seg_ids, times):
    off = 1 if 0 in list(node_ids) else 0
    exp = np.zeros(src.shape, dtype=np.int64)
    for n, s, t in zip(node_ids, seg_ids, times):
        exp[t][src[t] == s] = n + off
    return exp, off


def snap_source(seg_array):
    return np.array(np.asarray(seg_array), copy=True)


def post_relabel(seg_array, node_ids, seg_ids, time_values, result, OLD):
    STATS["post"] += 1
    exp, _ = expected_array(OLD.src, list(np.asarray(node_ids)),
                            list(np.asarray(seg_ids)), list(np.asarray(time_values)))
    return np.array_equal(np.asarray(result).astype(np.int64), exp)


_w = {}


def contracted():
    if "f" in _w:
        return _w["f"]
    import icontract

    import funtracks.import_export._import_segmentation as ims
    import funtracks.import_export._tracks_builder as tb

    f = icontract.snapshot(snap_source, name="src")(
        icontract.ensure(post_relabel, error=lambda seg_array, node_ids, seg_ids, time_values,
                         result: PostBroken("array"))(ims.relabel_segmentation))
    tb.relabel_segmentation = f  # the builder path goes through the contract as well
    _w["f"] = f
    return f


def gen_case(rng):
    nd = rng.choice([2, 2, 3])
    T = rng.randint(1, 5) if rng.random() < 0.85 else rng.randint(11, 13)
    shape = (8, 8) if nd == 2 else (3, 5, 5)
    pool = rng.choice([[1, 2, 3, 4], [1, 2, 3, 4, 5, 6, 7], [3, 9, 27]])
    src = np.zeros((T, *shape), dtype=rng.choice([np.int32, np.int64, np.uint16, np.uint8,
                                                   np.uint8]))
    dets = []  # (t, label)
    for t in range(T):
        for lab in rng.sample(pool, rng.randint(0, min(3, len(pool)))):
            cells = gen.grow_blob(rng, src[t] != 0, rng.choice([1, 2, 4, 6]))
            if cells:
                for c in cells:
                    src[t][c] = lab
                dets.append((t, lab))
    listed = [d for d in dets if rng.random() < 0.85]
    scheme = rng.choice(["fresh", "permute-labels", "equal-other-label", "identity", "with-zero"])
    n = len(listed)
    if scheme == "fresh":
        ids = rng.sample(range(50, 50 + 3 * n + 3), n)
    elif scheme == "identity" and len({l for _, l in listed}) == n:
        ids = [l for _, l in listed]
    elif scheme == "with-zero":
        ids = rng.sample(range(0, n + 3), n)
        if n and 0 not in ids:
            ids[rng.randrange(n)] = 0
    else:
        # ids drawn from the label pool first (so they collide with label values), unique
        cand = list(dict.fromkeys(pool + list(range(1, 3 * n + 10))))
        if scheme == "permute-labels":
            head = cand[:max(n, 1)]
            rng.shuffle(head)
            ids = head[:n]
        else:
            ids = rng.sample(cand[:n + 4], n)
    ids = [int(i) for i in ids]
    if len(set(ids)) != n:
        ids = list(range(100, 100 + n))
        scheme = "fresh"
    # ids at the top of the label dtype's range (and 0 forcing the +1 shift beyond it)
    if n >= 2 and src.dtype in (np.uint8, np.uint16) and rng.random() < 0.3:
        top = int(np.iinfo(src.dtype).max)
        if top not in ids:
            ids[rng.randrange(n)] = top
        if rng.random() < 0.6 and 0 not in ids:
            j = rng.choice([i for i in range(n) if ids[i] != top])
            ids[j] = 0
        scheme = "dtype-max"
    # row order: sorted by time, or track by track / shuffled (rows of one frame apart)
    order = list(range(n))
    if rng.random() < 0.5:
        rng.shuffle(order)
    listed = [listed[i] for i in order]
    ids = [ids[i] for i in order]
    # one row (never the last, which the importer samples) refers to a label that does not
    # occur in its frame: that node simply has no pixels; nothing else may be affected
    if n >= 2 and rng.random() < 0.1:
        j = rng.randrange(n - 1)
        t_j = listed[j][0]
        present = set(int(x) for x in np.unique(src[t_j]))
        absent = [v for v in range(1, 12) if v not in present
                  and all(not (tt == t_j and ll == v) for tt, ll in listed)]
        if absent:
            listed[j] = (t_j, rng.choice(absent[:3]))
            scheme = scheme + "+absent-label"
    # the LAST row refers to its label by its own id while other rows do not
    if n >= 2 and rng.random() < 0.2 and listed[-1][1] not in ids[:-1] and listed[-1][1] != 0:
        ids[-1] = int(listed[-1][1])
        scheme = scheme + "+last-identity"
    # forest edges over listed detections (forward in time)
    edges = []
    haspar = set()
    for i, (t, _) in enumerate(listed):
        later = [j for j, (t2, _) in enumerate(listed) if t2 > t and j not in haspar]
        if later and rng.random() < 0.6:
            j = rng.choice(later)
            edges.append((ids[i], ids[j]))
            haspar.add(j)
    return {"sorted_rows": order == sorted(order),
            "nd": nd, "src": src, "listed": listed, "ids": ids, "edges": edges,
            "scheme": scheme, "unlisted": len(dets) - len(listed),
            "scale": rng.choice([None, None, [1.0] + [rng.choice([1.0, 2.0, 0.5])
                                                      for _ in range(nd)]])}


def judge_direct(case):
    f = contracted()
    src = case["src"]
    ids, listed = case["ids"], case["listed"]
    g = nx.DiGraph()
    g.add_nodes_from(ids)
    g.add_edges_from(case["edges"])
    seg_ids = [l for _, l in listed]
    times = [t for t, _ in listed]
    exp, off = expected_array(src, ids, seg_ids, times)
    work = src.copy()  # the function gets its own copy; `src` stays pristine for the oracle
    try:
        out = f(work, g, np.array(ids, dtype=np.int64), np.array(seg_ids), np.array(times))
    except PostBroken:
        return [("relabel-array", f"relabel_segmentation: result differs from expected "
                 f"(scheme {case['scheme']}, ids {ids}, seg ids {seg_ids}, times {times})",
                 f"C13/direct/array/{case['scheme']}")]
    probs = []
    if not np.array_equal(work, src):
        probs.append(("source-modified", "relabel_segmentation modified its input array",
                      "C13/direct/source-modified"))
    if set(g.nodes) != {i + off for i in ids} or \
            set(g.edges) != {(u + off, v + off) for u, v in case["edges"]}:
        probs.append(("graph-shift", f"graph after relabel: nodes {sorted(g.nodes)} edges "
                      f"{sorted(g.edges)}; expected ids shifted by {off}",
                      "C13/direct/graph-shift"))
    return probs


def judge_import(case, how="array", prev=None):
    """how: 'array' (in-memory), 'folder' (one TIFF per frame, unpadded frame numbers, given
    as a path), 'builder' (a builder object that has already imported `prev`)."""
    import pandas as pd

    from funtracks.import_export import tracks_from_df

    contracted()
    src = case["src"]
    ids, listed = case["ids"], case["listed"]
    if not ids:
        return [], False
    nd = case["nd"]
    axes = ["z", "y", "x"] if nd == 3 else ["y", "x"]
    scale = case["scale"]
    parent = {v: u for u, v in case["edges"]}
    rows = []
    for n, (t, lab) in zip(ids, listed):
        hits = np.argwhere(src[t] == lab)
        # (a row whose label does not occur in its frame gets an arbitrary recorded position)
        px = hits[0] if len(hits) else np.zeros(src.ndim - 1, dtype=int)
        sc = [1.0] * nd if scale is None else scale[1:]
        row = {"time": t, "id": n, "parent_id": parent.get(n, -1), "seg_id": lab}
        for a, p, s in zip(axes, px, sc):
            row[a] = float(p) * s
        rows.append(row)
    df = pd.DataFrame(rows)
    nm = {"time": "time", "id": "id", "parent_id": "parent_id", "seg_id": "seg_id",
          "pos": axes}
    seg_ids = [l for _, l in listed]
    times = [t for t, _ in listed]
    exp, off = expected_array(src, ids, seg_ids, times)
    with warnings.catch_warnings():
        warnings.simplefilter("ignore")
        try:
            if how == "folder":
                import shutil

                import tifffile

                from .. import env

                wd = env.workdir("c13tif")
                try:
                    for t in range(src.shape[0]):
                        tifffile.imwrite(wd / f"frame_{t}.tif", src[t])
                    tracks = tracks_from_df(df, segmentation=wd, scale=scale,
                                            node_name_map=nm)
                    _ = np.asarray(tracks.segmentation)
                finally:
                    shutil.rmtree(wd, ignore_errors=True)
            elif how == "dask":
                import dask.array as da

                # a lazily loaded movie whose chunks hold two frames each
                lazy = da.from_array(src.copy(), chunks=(2, *src.shape[1:]))
                tracks = tracks_from_df(df, segmentation=lazy, scale=scale, node_name_map=nm)
                _ = np.asarray(tracks.segmentation)
            elif how == "builder" and prev is not None:
                from funtracks.import_export import CSVTracksBuilder

                b = CSVTracksBuilder()
                pdf, pseg, pscale = prev
                b.read_header(pdf)
                b.node_name_map = dict(nm)
                try:
                    b.build(pdf, pseg, scale=pscale)
                except Exception:
                    pass  # the earlier import is only there to leave its traces in the builder
                b.read_header(df)
                b.node_name_map = dict(nm)
                tracks = b.build(df, src.copy(), scale=scale)
            else:
                arr_ = src.copy()
                if len(ids) % 3 == 0:
                    arr_ = np.asfortranarray(arr_)  # e.g. a transposed (x, y, t) stack
                tracks = tracks_from_df(df, segmentation=arr_, scale=scale,
                                        node_name_map=nm)
        except Exception as e:
            return [("import-raised", f"tracks_from_df raised {type(e).__name__}: {e} "
                     f"(scheme {case['scheme']}, ids {ids})",
                     f"C13/import/raised/{type(e).__name__}/{case['scheme']}")], True
    case["_last_inputs"] = (df, src.copy(), scale)
    probs = []
    got = np.asarray(tracks.segmentation).astype(np.int64)
    if not np.array_equal(got, exp):
        bad = np.argwhere(got != exp)
        leftovers = set(int(x) for x in np.unique(got[got != exp]))
        relabel_needed = seg_ids != ids
        probs.append(("import-array", f"segmentation after import differs at {len(bad)} pixels "
                      f"(scheme {case['scheme']}, unlisted {case['unlisted']}, values there "
                      f"{sorted(leftovers)[:6]}, ids {ids}, seg ids {seg_ids})",
                      f"C13/import/array/{'relabelled' if relabel_needed else 'ids-equal-labels'}"
                      f"/{'unlisted' if case['unlisted'] else 'all-listed'}"))
    if set(int(n) for n in tracks.graph.nodes) != {i + off for i in ids}:
        probs.append(("import-nodes", f"nodes {sorted(tracks.graph.nodes)} expected "
                      f"{sorted(i + off for i in ids)}", "C13/import/nodes"))
    elif set((int(u), int(v)) for u, v in tracks.graph.edges) != \
            {(u + off, v + off) for u, v in case["edges"]}:
        probs.append(("import-edges", "edges not shifted consistently", "C13/import/edges"))
    else:
        for n, (t, lab) in zip(ids, listed):
            if tracks.get_time(n + off) != t:
                probs.append(("import-attrs", f"node {n + off} time {tracks.get_time(n + off)} "
                              f"!= {t}", "C13/import/attrs"))
                break
    return probs, True


def plan(tier, seed):
    n = 24000 if tier == "quick" else 160000
    return [{"kind": "cases", "n": n // 16, "seed": common.seed_for(PROP, tier, seed, i)}
            for i in range(16)]


def run_shard(spec):
    rng = random.Random(spec["seed"])
    acc = common.new_acc()
    STATS["post"] = 0
    prev_inputs = None
    for i in range(spec["n"]):
        case = gen_case(rng)
        acc["counters"]["cases"] = acc["counters"].get("cases", 0) + 1
        nontrivial = [l for _, l in case["listed"]] != case["ids"]
        for route in ("direct", "import"):
            if route == "direct":
                probs = judge_direct(case)
                ran = True
            else:
                how = rng.choice(["array", "array", "folder", "builder", "dask"])
                if how == "builder" and (prev_inputs is None
                                         or prev_inputs[1].ndim != case["src"].ndim):
                    how = "array"
                if how == "folder" and case["src"].shape[0] < 2:
                    how = "array"  # a folder with one image is not a movie
                probs, ran = judge_import(case, how, prev_inputs)
                if "_last_inputs" in case:
                    prev_inputs = case.pop("_last_inputs")
                if ran:
                    acc["counters"][f"import-{how}"] = \
                        acc["counters"].get(f"import-{how}", 0) + 1
                    if how == "folder" and case["src"].shape[0] >= 11:
                        acc["counters"]["import-folder-11+frames"] = \
                            acc["counters"].get("import-folder-11+frames", 0) + 1
                probs = [(c, w, k + ("" if how == "array" else f"/{how}")) for c, w, k in probs]
            if ran:
                acc["evaluations"] += 1
                acc["counters"][f"route-{route}"] = acc["counters"].get(f"route-{route}", 0) + 1
                if nontrivial:
                    acc["keys"].add(f"{route}/{case['nd']}D/{case['scheme']}/"
                                    f"unlisted={bool(case['unlisted'])}/zero={0 in case['ids']}")
            for clause, what, key in probs[:1]:
                acc["violations"].append({
                    "clause": clause, "what": what, "key": key,
                    "replay": {"how": (how if route == "import" else None),
                               "case": {**{k: v for k, v in case.items()
                                           if k not in ("src", "_last_inputs")},
                                        "src": case["src"].tolist(),
                                        "dtype": str(case["src"].dtype)}, "route": route}})
        if 0 in case["ids"]:
            acc["counters"]["cases-with-id-0"] = acc["counters"].get("cases-with-id-0", 0) + 1
        if case["unlisted"]:
            acc["counters"]["cases-with-unlisted"] = \
                acc["counters"].get("cases-with-unlisted", 0) + 1
        if not case.get("sorted_rows", True):
            acc["counters"]["cases-rows-not-grouped-by-time"] = \
                acc["counters"].get("cases-rows-not-grouped-by-time", 0) + 1
        if case["scheme"].startswith("dtype-max"):
            acc["counters"]["cases-id-at-dtype-max"] = \
                acc["counters"].get("cases-id-at-dtype-max", 0) + 1
        if "+absent-label" in case["scheme"]:
            acc["counters"]["cases-row-with-absent-label"] = \
                acc["counters"].get("cases-row-with-absent-label", 0) + 1
        if case["scheme"].endswith("+last-identity"):
            acc["counters"]["cases-last-row-identity"] = \
                acc["counters"].get("cases-last-row-identity", 0) + 1
        if case["scheme"].split("+")[0] in ("permute-labels", "equal-other-label"):
            acc["counters"]["cases-colliding-ids"] = \
                acc["counters"].get("cases-colliding-ids", 0) + 1
        if not acc["samples"] and len(case["ids"]) >= 3:
            acc["samples"].append({"nd": case["nd"], "scheme": case["scheme"],
                                   "listed (t,label)": case["listed"], "ids": case["ids"],
                                   "edges": case["edges"], "unlisted": case["unlisted"]})
        if len(acc["violations"]) > 30:
            break
    acc["counters"]["postcondition-evaluations"] = STATS["post"]
    return common.finish_acc(acc)


def floors(tier):
    return {"cases": 2000, "route-direct": 2000, "route-import": 1500, "cases-with-id-0": 150,
            "cases-with-unlisted": 500, "cases-colliding-ids": 500,
            "postcondition-evaluations": 2500, "cases-rows-not-grouped-by-time": 500,
            "cases-id-at-dtype-max": 100, "import-folder": 300, "import-builder": 300,
            "import-folder-11+frames": 30, "import-dask": 300}


def replay(doc):
    case = dict(doc["case"])
    case["src"] = np.array(case["src"], dtype=case.pop("dtype"))
    case["listed"] = [tuple(x) for x in case["listed"]]
    case["edges"] = [tuple(x) for x in case["edges"]]
    if doc["route"] == "direct":
        probs = judge_direct(case)
    else:
        how = doc.get("how") or "array"
        probs, _ = judge_import(case, how if how != "builder" else "array")
    return [{"clause": c, "what": w, "key": k} for c, w, k in probs]
