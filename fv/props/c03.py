"""C03 - edits keep a solution a forward-in-time binary forest."""

from __future__ import annotations

import random

from .. import checks, gen, session
from ..ops import execute, node_time
from ..session import Monitor, violation
from . import c06 as _c06
from . import common

PROP = "C03"
LEVEL = "exploration"
RULE = (
    "random editing sessions (all user actions, forced variants, paint, undo/redo) from random "
    "forests incl. the empty solution; after every call the forest invariant (in<=1, out<=2, "
    "strictly forward edges) is evaluated on the live graph, every UserAddEdge/UserAddNode/"
    "UserSwapPredecessors call is compared with an independent predictor of structural conflicts "
    "(must raise InvalidActionError, or with force succeed removing only conflicting edges), and "
    "every few steps ALL ordered node pairs are offered to UserAddEdge (force on/off) on deep "
    "copies. A case is non-trivial if the call was accepted and changed the graph or was refused "
    "for a structural reason; distinct by (action, pair class, merge?, child count, force, outcome)"
)
ASSUMPTIONS = [
    "node ids positive, times inside the segmentation, strokes within one frame (documented "
    "preconditions)",
    "refusals for reasons other than merge / third child / non-forward edge are not judged here",
]


def pair_class(tracks, u, v):
    g = tracks.graph
    if u not in g or v not in g:
        return "unknown-endpoint"
    tu, tv = node_time(tracks, u), node_time(tracks, v)
    if u == v:
        return "self"
    if tu == tv:
        return "same-frame"
    return "forward" if tu < tv else "backward"


class ForestMonitor(Monitor):
    name = "forest"

    def start(self, sess):
        self.ok = not checks.forest(sess.tracks)
        if not self.ok:
            return [violation("forest-after-construction", str(checks.forest(sess.tracks)),
                              "C03/forest/construction")]
        return []

    def step(self, sess, rec):
        self.evals += 1
        probs = checks.forest(sess.tracks)
        out = []
        if probs and self.ok:
            kind = probs[0][1].split(" ")[0]
            outcome = "accepted" if rec.out.ok else "raised"
            out.append(violation(
                "forest", f"after {rec.op}: {[p[1] for p in probs][:4]}",
                f"C03/forest/{rec.op['op']}/{'force' if rec.op.get('force') else 'noforce'}/"
                f"{kind}/{outcome}"))
        self.ok = not probs
        if rec.out.ok and (rec.pre["edges"].keys() != rec.post["edges"].keys()
                           or rec.pre["nodes"].keys() != rec.post["nodes"].keys()):
            self.keys.add(f"changed/{rec.op['op']}/{rec.summary['prims']}")
        return out


def predict_add_edge(pre_edges, times, u, v):
    """Which structural conflicts would adding (u, v) create in the pre-state?"""
    conflicts = set()
    if times[u] >= times[v]:
        conflicts.add("non-forward")
    in_v = [e for e in pre_edges if e[1] == v]
    out_u = [e for e in pre_edges if e[0] == u]
    if in_v:
        conflicts.add("merge")
    # third child: children of u other than v itself
    if len([e for e in out_u if e[1] != v]) >= 2:
        conflicts.add("third-child")
    return conflicts, set(in_v), set(out_u)


class RefusalMonitor(Monitor):
    """Independent predictor for the refusal / force clause."""

    name = "refusal"

    def judge_add_edge(self, tracks_pre_times, pre_edges, op, out, post_edges, where):
        u, v = op["edge"]
        force = bool(op.get("force"))
        if u not in tracks_pre_times or v not in tracks_pre_times:
            return []
        conflicts, in_v, out_u = predict_add_edge(pre_edges, tracks_pre_times, u, v)
        self.evals += 1
        cls = ("self" if u == v else "same-frame" if tracks_pre_times[u] == tracks_pre_times[v]
               else "forward" if tracks_pre_times[u] < tracks_pre_times[v] else "backward")
        nchild = len(out_u)
        okind = "accepted" if out.ok else out.exc_type
        self.keys.add(f"{where}/add_edge/{cls}/merge={bool(in_v)}/children={nchild}/"
                      f"force={force}/{okind}")
        self.count(f"offer-{cls}")
        if "merge" in conflicts and force:
            self.count("forced-merge-offers")
        res = []
        base = f"C03/refusal/UserAddEdge/{'+'.join(sorted(conflicts)) or 'legal'}/" \
               f"{'force' if force else 'noforce'}"
        if conflicts:
            if out.ok:
                removed = set(pre_edges) - set(post_edges)
                allowed = in_v | out_u
                if not force:
                    res.append(violation(
                        "must-refuse", f"UserAddEdge({u},{v}) without force accepted although "
                        f"it creates {sorted(conflicts)}", base + "/accepted"))
                elif "non-forward" in conflicts:
                    res.append(violation(
                        "must-refuse", f"forced UserAddEdge({u},{v}) accepted a non-forward "
                        f"edge t{tracks_pre_times[u]}->t{tracks_pre_times[v]}",
                        base + "/accepted"))
                elif not removed <= allowed:
                    res.append(violation(
                        "force-removes-only-conflicts",
                        f"forced UserAddEdge({u},{v}) removed {sorted(removed - allowed)} which "
                        "do not conflict", base + "/removed-unrelated"))
            else:
                if out.exc_type != "InvalidActionError":
                    res.append(violation(
                        "refusal-type", f"UserAddEdge({u},{v}) creating {sorted(conflicts)} "
                        f"raised {out.exc_type}: {out.exc_msg}", base + f"/{out.exc_type}"))
        else:
            if out.ok:
                removed = set(pre_edges) - set(post_edges)
                if removed:
                    res.append(violation(
                        "force-removes-only-conflicts",
                        f"legal UserAddEdge({u},{v}) removed edges {sorted(removed)}",
                        base + "/removed-unrelated"))
        return res

    def step(self, sess, rec):
        op = rec.op
        k = op["op"]
        pre_edges = list(rec.pre["edges"].keys())
        post_edges = list(rec.post["edges"].keys())
        tk = sess.tracks.features.time_key
        times = {n: a[tk] for n, a in rec.pre["nodes"].items()}
        if checks_forest_from(times, pre_edges):
            return []  # pre-state already invalid (reported when it became so)
        if k == "add_edge":
            return self.judge_add_edge(times, pre_edges, op, rec.out, post_edges, "session")
        res = []
        removed = set(pre_edges) - set(post_edges)
        if k == "add_node" and rec.out.ok:
            self.evals += 1
            # effective track: scan of the pre-state
            tidk = sess.tracks.features.tracklet_key
            tid = op.get("track_id")
            t = op["time"]
            members = [n for n, a in rec.pre["nodes"].items() if a.get(tidk) == tid]
            if any(times[n] == t for n in members):
                allowed = set()
                pred = succ = None
            else:
                before = [n for n in members if times[n] < t]
                after = [n for n in members if times[n] > t]
                pred = max(before, key=lambda n: times[n]) if before else None
                succ = min(after, key=lambda n: times[n]) if after else None
                allowed = set()
                if pred is not None and succ is not None and (pred, succ) in pre_edges:
                    allowed.add((pred, succ))
                if op.get("force"):
                    if pred is not None:
                        allowed |= {e for e in pre_edges if e[0] == pred}
                    if succ is not None:
                        allowed |= {e for e in pre_edges if e[1] == succ}
            self.keys.add(f"session/add_node/pred={pred is not None}/succ={succ is not None}/"
                          f"force={bool(op.get('force'))}/removed={len(removed)}")
            if removed:
                self.count("add-node-removals")
            if not removed <= allowed:
                res.append(violation(
                    "force-removes-only-conflicts",
                    f"UserAddNode {op} removed {sorted(removed - allowed)} (allowed "
                    f"{sorted(allowed)})",
                    f"C03/refusal/UserAddNode/{'force' if op.get('force') else 'noforce'}/"
                    "removed-unrelated"))
        elif k == "delete_edge" and rec.out.ok:
            self.evals += 1
            if removed != {tuple(op["edge"])}:
                res.append(violation("removes-only-named", f"UserDeleteEdge {op['edge']} removed "
                                     f"{sorted(removed)}", "C03/refusal/UserDeleteEdge/removed"))
        elif k == "swap" and rec.out.ok:
            self.evals += 1
            a, b = op["nodes"]
            allowed = {e for e in pre_edges if e[1] in (a, b)}
            if not removed <= allowed:
                res.append(violation("removes-only-named", f"swap {op['nodes']} removed "
                                     f"{sorted(removed - allowed)}",
                                     "C03/refusal/UserSwapPredecessors/removed"))
        return res


def checks_forest_from(times, edges):
    from ..oracles import forest_problems

    return forest_problems(times, edges)


class PairSweep(Monitor):
    """Every `period` steps: all ordered node pairs x force on/off, each on a deep copy."""

    name = "pairs"

    def __init__(self, period=6, cap=90, seed=0):
        super().__init__()
        self.period = period
        self.cap = cap
        self.rng = random.Random(seed)
        self.ref = RefusalMonitor()

    def start(self, sess):
        self.rng = random.Random(sess.cfg.seed ^ 0xC03)
        return []

    def step(self, sess, rec):
        if (rec.i + 1) % self.period:
            return []
        return self.sweep(sess)

    def sweep(self, sess):
        from ..canon import deep

        tracks = sess.tracks
        if checks.forest(tracks):
            return []
        nodes = [int(n) for n in tracks.graph.nodes]
        pairs = [(u, v) for u in nodes for v in nodes]
        if len(pairs) > self.cap:
            pairs = self.rng.sample(pairs, self.cap)
        tk = tracks.features.time_key
        res = []
        for u, v in pairs:
            for force in (False, True):
                c = checks.detached_copy(tracks)
                pre = deep(c)
                times = {n: a[tk] for n, a in pre["nodes"].items()}
                op = {"op": "add_edge", "edge": [u, v], "force": force}
                out = execute(c, op)
                post = deep(c)
                self.count("pair-offers")
                vs = self.ref.judge_add_edge(times, list(pre["edges"]), op, out,
                                             list(post["edges"]), "sweep")
                probs = checks.forest(c)
                if probs and not vs:
                    vs.append(violation(
                        "forest", f"sweep UserAddEdge({u},{v},force={force}): "
                        f"{[p[1] for p in probs][:3]}",
                        f"C03/forest/add_edge/{'force' if force else 'noforce'}/"
                        f"{probs[0][1].split(' ')[0]}/sweep"))
                for x in vs:
                    x["sweep_op"] = op
                res.extend(vs)
                if res:
                    break
            if res:
                break
        self.evals += self.ref.evals
        self.ref.evals = 0
        self.keys |= self.ref.keys
        for k, n in self.ref.counters.items():
            self.count(k, n)
        self.ref.counters = {}
        return res[:1]


def _recompute_track_ids(gen, tracks):
    if gen.rng.random() < 0.3:
        return {"op": "reload"}
    f = tracks.features
    return {"op": "features", "enable": gen.rng.choice([[f.tracklet_key],
                                                      [f.tracklet_key, f.lineage_key]]),
            "recompute": True}


# after the random part: ids recomputed in bulk (or the tracks saved and loaded), then several
# nodes added on freshly issued track ids at different frames, then more edits
TAIL = [_recompute_track_ids, _c06._add_on_next_track, _c06._add_on_next_track,
        _c06._add_on_next_track, _c06._edit, _c06._add_on_next_track, _c06._edit]


def make_monitors(seed=0):
    return [ForestMonitor(), RefusalMonitor(), PairSweep(seed=seed)]


def cfg_fn(rng):
    cfg = gen.random_config(rng, p3d=0.15, extras=False)
    if rng.random() < 0.15:
        cfg.T = 4
        cfg.max_per_frame = 1
    return cfg


WEIGHTS = {"ctrl": 0.8, "scenario": 1.2, "add_edge": 6, "add_node": 4, "swap": 2.5, "paint": 2, "update_attrs": 0.3}


def plan(tier, seed):
    specs = common.session_plan(PROP, tier, seed, quick=900, thorough=12000)
    # sessions starting from the empty solution
    for s in specs[: max(2, len(specs) // 5)]:
        s["empty"] = True
    return specs


def run_shard(spec):
    def cf(rng):
        cfg = cfg_fn(rng)
        if spec.get("empty"):
            cfg.T = rng.randint(3, 5)
            cfg.max_per_frame = 0  # empty forest
        return cfg

    # an empty forest needs p_empty=1: handled by max_per_frame 0 below
    return common.run_sessions(spec, PROP, make_monitors, cf, nsteps=(15, 30),
                               weights=WEIGHTS, history_share=0.25,
                               tail=TAIL, tail_share=0.4)


def floors(tier):
    f = {"sessions": 200, "offer-backward": 200, "offer-same-frame": 100,
         "forced-merge-offers": 100, "pair-offers": 2000}
    return f


def replay(doc):
    return common.replay_sessions(doc, make_monitors)
