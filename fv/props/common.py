"""Shared shard logic for the session-based properties."""

from __future__ import annotations

import random
import time
from typing import Callable

from .. import gen, session


def seed_for(*parts) -> int:
    import hashlib

    h = hashlib.sha256("/".join(str(p) for p in parts).encode()).digest()
    return int.from_bytes(h[:6], "big")


def session_plan(prop: str, tier: str, seed: int, quick: int, thorough: int,
                 nshards_quick: int = 16, nshards_thorough: int = 32, **extra) -> list[dict]:
    total = quick if tier == "quick" else thorough
    nshards = nshards_quick if tier == "quick" else nshards_thorough
    per = max(1, total // nshards)
    out = []
    for i in range(nshards):
        d = {"kind": "sessions", "shard": i, "n": per,
             "seed": seed_for(prop, tier, seed, i)}
        d.update(extra)
        out.append(d)
    return out


def merge_monitors(monitors, acc):
    for m in monitors:
        acc["evaluations"] += m.evals
        acc["keys"].update(m.keys)
        for k, v in m.counters.items():
            acc["counters"][k] = acc["counters"].get(k, 0) + v


def new_acc():
    return {"evaluations": 0, "keys": set(), "counters": {}, "samples": [], "violations": [],
            "extra": {}}


def finish_acc(acc):
    acc["keys"] = sorted(acc["keys"])
    return acc


def run_sessions(spec: dict, prop: str, make_monitors: Callable[[], list],
                 cfg_fn: Callable[[random.Random], gen.Config], nsteps: tuple[int, int],
                 weights=None, refusal_rate: float = 1.0, budget_s: float | None = None,
                 weights_fn=None) -> dict:
    rng = random.Random(spec["seed"])
    acc = new_acc()
    t0 = time.time()
    nsess = 0
    for i in range(spec["n"]):
        if budget_s is not None and time.time() - t0 > budget_s:
            acc["counters"]["budget_cut"] = acc["counters"].get("budget_cut", 0) + 1
            break
        cfg = cfg_fn(rng)
        sseed = rng.randrange(1 << 30)
        monitors = make_monitors()
        w = weights_fn(rng) if weights_fn else weights
        ns = rng.randint(*nsteps)
        try:
            sess = session.run_random_session(cfg, monitors, sseed, ns, weights=w,
                                              refusal_rate=refusal_rate)
        except Exception:
            import traceback

            acc["counters"]["harness_errors"] = acc["counters"].get("harness_errors", 0) + 1
            acc["extra"].setdefault("harness_error_samples", [])
            if len(acc["extra"]["harness_error_samples"]) < 3:
                acc["extra"]["harness_error_samples"].append(
                    {"cfg": cfg.to_json(), "seed": sseed, "tb": traceback.format_exc()[-1500:]})
            continue
        nsess += 1
        merge_monitors(monitors, acc)
        acc["counters"]["sessions"] = acc["counters"].get("sessions", 0) + 1
        acc["counters"]["steps"] = acc["counters"].get("steps", 0) + sess.nsteps
        if sess.hang:
            acc["counters"]["hangs"] = acc["counters"].get("hangs", 0) + 1
        if len(acc["samples"]) < 1 and sess.ops:
            acc["samples"].append({"config": cfg.tag(), "first_ops": sess.ops[:6],
                                   "steps": sess.nsteps})
        for v in sess.violations[:1]:
            v = dict(v)
            v["replay"] = sess.replay_doc(prop, {"session_seed": sseed})
            acc["violations"].append(v)
    return finish_acc(acc)


def replay_sessions(doc: dict, make_monitors) -> list[dict]:
    cfg = gen.Config.from_json(doc["config"])
    sess = session.run_ops_session(cfg, make_monitors(), doc["ops"])
    return sess.violations
