"""Shared shard logic for the session-based properties."""

from __future__ import annotations

import random
import time
from typing import Callable

from .. import gen, session


SESSION_NOTE = (
    " | session generator (shared): configurations = 2D/3D x with/without label image (int64/"
    "int32/uint16/uint32/uint64) x scale None/ones/anisotropic/time-scale!=1 x single-key/"
    "per-axis position x construction routes (graph without ids, graph with ids + registry, "
    "DataFrame import, Tracks -> from_tracks) x optional features (also under renamed keys) x "
    "custom float/str/bool features x node ids contiguous/sparse/including 0/in the millions x "
    "ids and times as numpy integers x 1-7 frames (thorough: 20 % with 8-12 frames); "
    "operations = all seven user actions with every argument class (forced, refusable, numpy-"
    "typed, list/array edges, caller re-using its dict, several attribute keys, measurements "
    "next to pixels, unwritable pixels), paint strokes through a driver that paints first "
    "(multi-label, multi-frame erase, no-op, unchanged pixels reported), undo/redo (also via "
    "the deprecated controller), multi-element TracksController calls, locality of follow-up "
    "edits, re-use of ids of deleted nodes, history-heavy sessions and scripted scenarios"
)


def seed_for(*parts) -> int:
    import hashlib

    h = hashlib.sha256("/".join(str(p) for p in parts).encode()).digest()
    return int.from_bytes(h[:6], "big")


def session_plan(prop: str, tier: str, seed: int, quick: int, thorough: int,
                 nshards_quick: int = 16, nshards_thorough: int = 32, **extra) -> list[dict]:
    total = quick if tier == "quick" else thorough
    nshards = nshards_quick if tier == "quick" else nshards_thorough
    per = max(1, total // nshards)
    out = []
    for i in range(nshards):
        d = {"kind": "sessions", "shard": i, "n": per,
             "seed": seed_for(prop, tier, seed, i)}
        d.update(extra)
        out.append(d)
    return out


def merge_monitors(monitors, acc):
    for m in monitors:
        acc["evaluations"] += m.evals
        acc["keys"].update(m.keys)
        for k, v in m.counters.items():
            acc["counters"][k] = acc["counters"].get(k, 0) + v


def new_acc():
    return {"evaluations": 0, "keys": set(), "counters": {}, "samples": [], "violations": [],
            "extra": {}}


def finish_acc(acc):
    acc["keys"] = sorted(acc["keys"])
    return acc


def run_sessions(spec: dict, prop: str, make_monitors: Callable[[], list],
                 cfg_fn: Callable[[random.Random], gen.Config], nsteps: tuple[int, int],
                 weights=None, refusal_rate: float = 1.0, budget_s: float | None = None,
                 weights_fn=None, opgen=None, history_share: float = 0.0, tail=None,
                 tail_share: float = 0.0) -> dict:
    rng = random.Random(spec["seed"])
    acc = new_acc()
    t0 = time.time()
    nsess = 0
    for i in range(spec["n"]):
        if budget_s is not None and time.time() - t0 > budget_s:
            acc["counters"]["budget_cut"] = acc["counters"].get("budget_cut", 0) + 1
            break
        cfg = cfg_fn(rng)
        large = spec.get("_tier") == "thorough" and rng.random() < 0.2
        if large and cfg.max_per_frame > 0 and not cfg.big:
            # thorough tier: a share of larger forests and longer histories
            cfg.T = rng.randint(8, 12)
            cfg.max_per_frame = rng.choice([4, 5, 6]) if cfg.ndim == 3 else 4
            acc["counters"]["large-sessions"] = acc["counters"].get("large-sessions", 0) + 1
        sseed = rng.randrange(1 << 30)
        monitors = make_monitors()
        w = weights_fn(rng) if weights_fn else weights
        if history_share and rng.random() < history_share:
            # history-heavy session: runs of undos, edits after undos, redos
            w = dict(w or {})
            w.update(rng.choice([{"undo": 11, "redo": 4}, {"undo": 9, "redo": 9},
                                 {"undo": 8, "redo": 2}]))
            acc["counters"]["history-heavy-sessions"] = \
                acc["counters"].get("history-heavy-sessions", 0) + 1
        ns = rng.randint(*nsteps) * (2 if large else 1)
        try:
            sess = session.run_random_session(cfg, monitors, sseed, ns, weights=w,
                                              refusal_rate=refusal_rate, opgen=opgen,
                                              tail=tail if tail and rng.random() < tail_share
                                              else None)
        except Exception:
            import traceback

            acc["counters"]["harness_errors"] = acc["counters"].get("harness_errors", 0) + 1
            acc["extra"].setdefault("harness_error_samples", [])
            if len(acc["extra"]["harness_error_samples"]) < 3:
                acc["extra"]["harness_error_samples"].append(
                    {"cfg": cfg.to_json(), "seed": sseed, "tb": traceback.format_exc()[-1500:]})
            continue
        nsess += 1
        merge_monitors(monitors, acc)
        acc["counters"]["sessions"] = acc["counters"].get("sessions", 0) + 1
        acc["counters"]["steps"] = acc["counters"].get("steps", 0) + sess.nsteps
        acc["counters"]["distinct-states-visited(sum over sessions)"] = \
            acc["counters"].get("distinct-states-visited(sum over sessions)", 0) + \
            len(sess.state_hashes)
        if sess.hang:
            acc["counters"]["hangs"] = acc["counters"].get("hangs", 0) + 1
        if len(acc["samples"]) < 1 and sess.ops:
            acc["samples"].append({"config": cfg.tag(), "first_ops": sess.ops[:6],
                                   "steps": sess.nsteps})
        for v in sess.violations[:1]:
            v = dict(v)
            v["replay"] = sess.replay_doc(prop, {"session_seed": sseed})
            acc["violations"].append(v)
    return finish_acc(acc)


def replay_sessions(doc: dict, make_monitors) -> list[dict]:
    cfg = gen.Config.from_json(doc["config"])
    sess = session.run_ops_session(cfg, make_monitors(), doc["ops"])
    return sess.violations


# ----------------------------------------------------------------- repository test-suite as workload
def pytest_spec() -> dict:
    return {"kind": "pytest", "seed": 0}


def run_pytest_shard(spec: dict, prop: str, tests: list[str] | None = None) -> dict:
    """Run the repository's own tests (unedited) under fv.pytest_plugin in a subprocess and
    return what the plugin's monitors observed for `prop`. The tests are a workload only:
    their own pass/fail status is reported as a counter, never as a verdict."""
    import glob
    import json
    import os
    import shutil
    import subprocess
    import sys

    from .. import env

    acc = new_acc()
    wd = env.workdir(f"pytest-{prop}")
    out = wd / "plugin"
    envv = dict(os.environ)
    envv["FV_PLUGIN_OUT"] = str(out)
    envv["FV_REPO"] = str(env.REPO)
    envv["PYTHONPATH"] = str(env.VERIF) + os.pathsep + str(env.REPO / "src")
    envv[env.GUARD] = "1"
    cmd = [sys.executable, "-m", "pytest", "-q", "-p", "no:cacheprovider", "-p",
           "fv.pytest_plugin", "-n", "4", "--timeout=600", f"--basetemp={wd / 'tmp'}"]
    cmd += tests or ["tests"]
    try:
        p = subprocess.run(cmd, cwd=str(env.REPO), env=envv, capture_output=True, text=True,
                           timeout=1500)
        files = glob.glob(str(out) + ".gw*.json") or glob.glob(str(out) + ".main.json")
        if not files:
            acc["counters"]["harness_errors"] = 1
            acc["extra"]["harness_error_samples"] = [{"tb": (p.stdout + p.stderr)[-1500:]}]
            return finish_acc(acc)
        for f in files:
            d = json.load(open(f))
            acc["counters"]["pytest-tests"] = acc["counters"].get("pytest-tests", 0) + d["tests"]
            acc["counters"]["pytest-observer-errors"] = \
                acc["counters"].get("pytest-observer-errors", 0) + d["errors"]
            for k, v in d["windows"].items():
                if k.startswith(prop + "-") or k.startswith(("ok-", "raised-")):
                    acc["counters"][f"pytest-{k}"] = acc["counters"].get(f"pytest-{k}", 0) + v
                    if k.endswith("comparisons") and k.startswith(prop):
                        acc["evaluations"] += v
                if k.startswith(("ok-", "raised-")):
                    acc["keys"].add(f"pytest/{k}")
            ev = d["contracts"].get("evaluations", {}).get(prop, 0)
            if ev:
                acc["counters"]["pytest-contract-evaluations"] = \
                    acc["counters"].get("pytest-contract-evaluations", 0) + ev
                acc["evaluations"] += ev
            if d["contracts"].get("install_error"):
                acc["counters"]["harness_errors"] = 1
                acc["extra"]["harness_error_samples"] = [{"tb": d["contracts"]["install_error"]}]
            for v in d["violations"]:
                if v["property"] != prop:
                    continue
                acc["violations"].append({
                    "clause": v["clause"], "what": f"[{v['test']}] {v['what']}", "key": v["key"],
                    "replay": {"kind": "pytest", "test": v["test"]}})
        tail = (p.stdout or "").strip().splitlines()[-1:] or [""]
        acc["extra"]["pytest_summary"] = tail[0][:200]
    except subprocess.TimeoutExpired:
        acc["counters"]["harness_errors"] = 1
        acc["extra"]["harness_error_samples"] = [{"tb": "pytest workload timed out"}]
    finally:
        shutil.rmtree(wd, ignore_errors=True)
    return finish_acc(acc)


def replay_pytest(doc: dict, prop: str) -> list[dict]:
    res = run_pytest_shard({"kind": "pytest"}, prop, tests=[doc["test"]])
    return res["violations"]
