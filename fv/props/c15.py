"""C15 - subset export is ancestor-closed and contains nothing else."""

from __future__ import annotations

import itertools
import random
import shutil
import warnings

import numpy as np

from .. import env, gen, oracles as O
from ..ops import OpGen, execute
from . import common

PROP = "C15"
LEVEL = "exploration"
EXHAUSTIVE = {"quick": True, "thorough": True}
RULE = (
    "random forests with <= 8 nodes: filter_graph_with_ancestors (icontract postcondition on the "
    "real function: superset of the selection, closed under predecessors, minimal) is run on "
    "ALL non-empty subsets (exhaustive, up to 255 per forest); export_to_csv (with "
    "export_seg) and export_to_geff with node_ids are run on sampled subsets of these forests "
    "and of larger ones (with/without segmentation), the written files are read back and "
    "(node ids that include 0; movies longer than one 64-frame storage chunk) and "
    "compared with an own parent-pointer closure: exported ids = closure, exported edges = "
    "edges induced by the closure, no row with a missing parent, GEFF segmentation = "
    "where(isin(seg, closure), seg, 0), CSV tif non-zero exactly on the pixels of closure nodes "
    "with their track id. Non-trivial = closure strictly larger than the selection or "
    "selection spanning several lineages. Between export rounds the same tracks object is "
    "edited by accepted user actions and exported again; CSV exports also run with a colour "
    "table. distinct = (format, seg?, |selection|, |closure|, "
    "lineages touched)"
)
ASSUMPTIONS = ["the subset is given as node ids of the graph"]

STATS = {"post": 0}


class PostBroken(Exception):
    pass


def post_filter(graph, nodes_to_keep, result):
    STATS["post"] += 1
    parent = {v: u for u, v in graph.edges}
    exp = O.ancestors_closure(parent, nodes_to_keep)
    return set(result) == exp and len(result) == len(set(result))


_w = {}


def contracted():
    if "f" in _w:
        return _w["f"]
    import icontract

    import funtracks.import_export._utils as u
    import funtracks.import_export.csv._export as ce
    import funtracks.import_export.geff._export as ge

    f = icontract.ensure(post_filter, error=lambda graph, nodes_to_keep, result: PostBroken(
        (sorted(nodes_to_keep), sorted(result))))(u.filter_graph_with_ancestors)
    ce.filter_graph_with_ancestors = f
    ge.filter_graph_with_ancestors = f
    _w["f"] = f
    return f


def _as_arg(sel, tracks, variant):
    """The selection as the caller passes it: a set, or (variant 'list') a list in which ids
    repeat, padded to as many entries as the graph has nodes when that is possible."""
    if variant != "list":
        return set(sel)
    lst = sorted(sel)
    n = tracks.graph.number_of_nodes()
    i = 0
    while len(lst) < n:
        lst.append(lst[i % len(sel)])
        i += 1
    return lst


def export_checks(tracks, forest, sel, wd, fmt, uniq, variant="plain"):
    """Run one export with node_ids=sel and compare the files with the closure."""
    import pandas as pd

    from funtracks.import_export import export_to_csv, export_to_geff

    parent = forest_parent(tracks)
    closure = O.ancestors_closure(parent, sel)
    edges_exp = {(parent[n], n) for n in closure if parent.get(n) is not None}
    seg = tracks.segmentation
    if seg is not None:
        # the harness's own copy of the label array, refreshed only after edits
        ref = getattr(tracks, "_fv_seg_ref", None)
        if ref is None or ref[0] != id(seg):
            tracks._fv_seg_ref = ref = (id(seg), np.array(seg, copy=True))
        seg = ref[1]
    probs = []
    with warnings.catch_warnings():
        warnings.simplefilter("ignore")
        if fmt == "csv":
            out = wd / f"s{uniq}.csv"
            kw = {}
            if seg is not None:
                kw = {"export_seg": True, "seg_path": wd / f"s{uniq}.tif"}
            if variant == "colors":
                kw["color_dict"] = {int(n): np.array([0.1, 0.5, 0.9, 1.0])
                                    for n in tracks.graph.nodes}
            export_to_csv(tracks, out, node_ids=_as_arg(sel, tracks, variant), **kw)
            df = pd.read_csv(out)
            ids = [int(x) for x in df["id"]]
            if set(ids) != closure or len(ids) != len(closure):
                probs.append(("csv-nodes", f"selection {sorted(sel)}: exported ids "
                              f"{sorted(ids)} != closure {sorted(closure)}",
                              "C15/csv/nodes"))
            else:
                got_edges = set()
                for i, p in zip(df["id"], df["parent_id"]):
                    if not pd.isna(p):
                        got_edges.add((int(p), int(i)))
                        if int(p) not in closure:
                            probs.append(("csv-missing-parent", f"row {int(i)} has parent "
                                          f"{int(p)} which is not exported",
                                          "C15/csv/missing-parent"))
                if got_edges != edges_exp and not probs:
                    probs.append(("csv-edges", f"exported links {sorted(got_edges)} != induced "
                                  f"{sorted(edges_exp)}", "C15/csv/edges"))
            if seg is not None and not probs:
                import tifffile

                tif = tifffile.imread(wd / f"s{uniq}.tif")
                exp = np.zeros(seg.shape, dtype=np.int64)
                for n in closure:
                    exp[seg == n] = tracks.get_track_id(n)
                if not np.array_equal(np.asarray(tif).astype(np.int64), exp):
                    probs.append(("csv-seg", f"selection {sorted(sel)}: exported tif differs "
                                  f"from masks of the closure at "
                                  f"{int((np.asarray(tif) != exp).sum())} pixels",
                                  "C15/csv/seg"))
        else:
            import geff
            import zarr

            d = wd / f"g{uniq}.zarr"
            if variant == "overwrite":
                # the directory already holds an export of another selection
                other = set(list(tracks.graph.nodes)[: max(1, len(tracks.graph) // 2)])
                export_to_geff(tracks, d, node_ids=other if other != set(sel) else None)
                export_to_geff(tracks, d, node_ids=set(sel), overwrite=True)
            else:
                export_to_geff(tracks, d, node_ids=_as_arg(sel, tracks, variant))
            g, _ = geff.read(d / "tracks")
            if set(int(n) for n in g.nodes) != closure:
                probs.append(("geff-nodes", f"selection {sorted(sel)}: exported nodes "
                              f"{sorted(g.nodes)} != closure {sorted(closure)}",
                              "C15/geff/nodes"))
            elif set((int(u), int(v)) for u, v in g.edges) != edges_exp:
                probs.append(("geff-edges", f"exported edges {sorted(g.edges)} != induced "
                              f"{sorted(edges_exp)}", "C15/geff/edges"))
            if seg is not None and not probs:
                z = zarr.open(str(d / "segmentation"), mode="r")[:]
                exp = np.where(np.isin(seg, sorted(closure)), seg, 0)
                if not np.array_equal(np.asarray(z), exp):
                    probs.append(("geff-seg", f"selection {sorted(sel)}: exported segmentation "
                                  "differs from the masks of the closure", "C15/geff/seg"))
    return probs, closure


def _account(acc, cfg, tracks, sel, closure, comp_of, fmt, variant, probs, ops):
    acc["evaluations"] += 1
    acc["counters"][f"exports-{fmt}"] = acc["counters"].get(f"exports-{fmt}", 0) + 1
    if variant != "plain":
        acc["counters"][f"exports-{fmt}-{variant}"] = \
            acc["counters"].get(f"exports-{fmt}-{variant}", 0) + 1
    if cfg.seg:
        acc["counters"]["exports-with-seg"] = acc["counters"].get("exports-with-seg", 0) + 1
    if ops:
        acc["counters"]["exports-after-edits"] = acc["counters"].get("exports-after-edits", 0) + 1
    if cfg.big and fmt == "geff" and any(tracks.get_time(n) >= 64 for n in closure):
        acc["counters"]["geff-seg-exports-beyond-first-chunk"] = \
            acc["counters"].get("geff-seg-exports-beyond-first-chunk", 0) + 1
    nl = len({comp_of[n] for n in sel if n in comp_of})
    if len(closure) > len(sel) or nl > 1:
        acc["keys"].add(f"{fmt}/{variant}/{'seg' if cfg.seg else 'noseg'}/sel={len(sel)}/"
                        f"closure={len(closure)}/lineages={nl}/big={cfg.big}/"
                        f"edited={bool(ops)}")
    for clause, what, key in probs[:1]:
        acc["violations"].append({
            "clause": clause, "what": what, "key": key + ("/after-edits" if ops else ""),
            "replay": {"config": cfg.to_json(), "sel": sorted(sel), "fmt": fmt,
                       "variant": variant, "ops": ops}})
    if not acc["samples"] and len(closure) > len(sel):
        acc["samples"].append({"edges": sorted(tracks.graph.edges), "selection": sorted(sel),
                               "closure": sorted(closure), "format": fmt,
                               "edits_before": len(ops)})


def forest_parent(tracks):
    return {int(v): int(u) for u, v in tracks.graph.edges}


def plan(tier, seed):
    n = 96 if tier == "quick" else 1600
    return [{"kind": "cases", "n": n // 16, "seed": common.seed_for(PROP, tier, seed, i),
             "exports": 12 if tier == "quick" else 18} for i in range(16)]


def run_shard(spec):
    rng = random.Random(spec["seed"])
    acc = common.new_acc()
    STATS["post"] = 0
    f = contracted()
    wd = env.workdir("c15")
    try:
        for i in range(spec["n"]):
            small = rng.random() < 0.7
            r0 = rng.random()
            if r0 < 0.15:
                # movie longer than one storage chunk of the exported label array
                cfg = gen.big_config(rng, seg=True)
                acc["counters"]["big-movies"] = acc["counters"].get("big-movies", 0) + 1
            elif r0 < 0.27:
                # many lineages with far-apart ids, most of them selected
                cfg = gen.random_config(rng, p3d=0.0, extras=False, seg=True)
                cfg.T = rng.randint(6, 8)
                cfg.max_per_frame = 9
                cfg.p_empty = 0.0
                cfg.id_kind = "huge"
                cfg.seg_dtype = "int64"
                acc["counters"]["many-node-forests"] = \
                    acc["counters"].get("many-node-forests", 0) + 1
            else:
                cfg = gen.random_config(rng, p3d=0.15, extras=False)
                if r0 > 0.85:
                    cfg.seg, cfg.id_kind, cfg.pos_mode = False, "zero", "single"
                cfg.T = rng.randint(2, 6)
                cfg.max_per_frame = rng.choice([1, 2, 2, 3])
                cfg.skip_prob = rng.choice([0, 0.2, 0.5])
            cfg.custom = False
            tracks, forest, _ = gen.build_tracks(cfg)
            nodes = sorted(int(n) for n in tracks.graph.nodes)
            if not nodes:
                continue
            acc["counters"]["forests"] = acc["counters"].get("forests", 0) + 1
            if 0 in nodes and tracks.graph.out_degree(0) > 0:
                acc["counters"]["forests-where-node-0-is-a-parent"] = \
                    acc["counters"].get("forests-where-node-0-is-a-parent", 0) + 1
            parent = forest_parent(tracks)
            comps = O.component_partition(nodes, tracks.graph.edges)
            comp_of = {n: i for i, c in enumerate(comps) for n in c}
            # exhaustive over all non-empty subsets of forests with <= 8 nodes
            if len(nodes) <= 8:
                subsets = [set(c) for r in range(1, len(nodes) + 1)
                           for c in itertools.combinations(nodes, r)]
                acc["counters"]["forests-exhaustive"] = \
                    acc["counters"].get("forests-exhaustive", 0) + 1
            else:
                subsets = [set(rng.sample(nodes, rng.randint(1, len(nodes)))) for _ in range(120)]
                if len(nodes) > 40:
                    subsets += [set(rng.sample(nodes, len(nodes) - rng.randint(1, 6)))
                                for _ in range(60)]
            for sel in subsets:
                acc["evaluations"] += 1
                try:
                    f(tracks.graph, set(sel))
                except PostBroken as e:
                    acc["violations"].append({
                        "clause": "closure", "what": f"filter_graph_with_ancestors{e.args[0]} "
                        f"on edges {sorted(tracks.graph.edges)}", "key": "C15/filter/closure",
                        "replay": {"config": cfg.to_json(), "sel": sorted(sel), "fmt": "filter"}})
                    break
            acc["counters"]["subsets-filter"] = acc["counters"].get("subsets-filter", 0) + \
                len(subsets)
            # exports on sampled subsets; between export rounds the SAME tracks object is
            # edited (a few accepted user actions), so that anything an exporter remembers
            # about the graph from an earlier call is put to the test
            ops_done: list = []
            nrounds = 1 if cfg.big else 3
            per_round = max(2, spec["exports"] // nrounds)
            jobs = []
            for rnd in range(nrounds):
                if rnd:
                    ogen = OpGen(cfg, rng, weights={"paint": 1.5, "update_attrs": 0.2},
                                 refusal_rate=0.0)
                    with warnings.catch_warnings():
                        warnings.simplefilter("ignore")
                        for _ in range(rng.randint(1, 5)):
                            op = ogen.next(tracks)
                            execute(tracks, op)
                            ops_done.append(op)
                    if tracks.segmentation is not None:
                        tracks._fv_seg_ref = (id(tracks.segmentation),
                                              np.array(tracks.segmentation, copy=True))
                    acc["counters"]["export-rounds-after-edits"] = \
                        acc["counters"].get("export-rounds-after-edits", 0) + 1
                    nodes = sorted(int(n) for n in tracks.graph.nodes)
                    if not nodes:
                        break
                    comps = O.component_partition(nodes, tracks.graph.edges)
                    comp_of = {n: k for k, c in enumerate(comps) for n in c}
                    subsets = [set(rng.sample(nodes, rng.randint(1, len(nodes))))
                               for _ in range(30)]
                    for sel in subsets[:10]:
                        acc["evaluations"] += 1
                        try:
                            f(tracks.graph, set(sel))
                        except PostBroken as e:
                            acc["violations"].append({
                                "clause": "closure",
                                "what": f"after edits: filter_graph_with_ancestors{e.args[0]} on "
                                f"edges {sorted(tracks.graph.edges)}",
                                "key": "C15/filter/closure/after-edits",
                                "replay": {"config": cfg.to_json(), "sel": sorted(sel),
                                           "fmt": "filter", "ops": list(ops_done)}})
                            break
                for j in range(per_round):
                    jobs.append((rnd, j))
                    sel = rng.choice(subsets)
                    fmt = rng.choice(["csv", "geff"])
                    variant = "colors" if fmt == "csv" and rng.random() < 0.3 else \
                        "overwrite" if fmt == "geff" and rng.random() < 0.25 else \
                        "list" if rng.random() < 0.25 else "plain"
                    try:
                        probs, closure = export_checks(tracks, forest, sel, wd, fmt,
                                                       f"{i}-{rnd}-{j}", variant)
                    except PostBroken as e:
                        probs, closure = [("closure", f"{e.args[0]}",
                                           "C15/filter/closure")], set()
                    except Exception as e:  # an export of a valid selection must not fail
                        probs, closure = [("export-raised", f"{fmt} export of {sorted(sel)[:8]} "
                                           f"raised {type(e).__name__}: {str(e)[:200]}",
                                           f"C15/{fmt}/raised/{type(e).__name__}")], set()
                    _account(acc, cfg, tracks, sel, closure, comp_of, fmt, variant, probs,
                             list(ops_done))
            shutil.rmtree(wd, ignore_errors=True)
            wd.mkdir(parents=True, exist_ok=True)
            if len(acc["violations"]) > 10:
                break
    finally:
        shutil.rmtree(wd, ignore_errors=True)
    acc["counters"]["postcondition-evaluations"] = STATS["post"]
    acc["extra"]["exhaustive_space"] = "all non-empty node subsets of every generated forest " \
                                       "with <= 8 nodes (filter_graph_with_ancestors)"
    return common.finish_acc(acc)


def floors(tier):
    return {"forests": 60, "forests-exhaustive": 25, "subsets-filter": 3000, "exports-csv": 150,
            "exports-geff": 150, "exports-with-seg": 100, "postcondition-evaluations": 3000,
            "forests-where-node-0-is-a-parent": 2, "geff-seg-exports-beyond-first-chunk": 6,
            "exports-after-edits": 150, "exports-csv-colors": 40,
            "exports-geff-overwrite": 40, "many-node-forests": 2}


def replay(doc):
    cfg = gen.Config.from_json(doc["config"])
    tracks, forest, _ = gen.build_tracks(cfg)
    f = contracted()
    sel = set(doc["sel"])
    if doc.get("ops"):
        # a remembered-state defect needs an export before the edits as well
        wd0 = env.workdir("c15r0")
        try:
            with warnings.catch_warnings():
                warnings.simplefilter("ignore")
                try:
                    f(tracks.graph, set(tracks.graph.nodes))
                    for n in list(tracks.graph.nodes):
                        f(tracks.graph, {n})
                except PostBroken:
                    pass
                for op in doc["ops"]:
                    execute(tracks, op)
        finally:
            shutil.rmtree(wd0, ignore_errors=True)
    if doc["fmt"] == "filter":
        try:
            f(tracks.graph, sel)
        except PostBroken as e:
            return [{"clause": "closure", "what": str(e.args[0]), "key": "C15/filter/closure"}]
        return []
    wd = env.workdir("c15r")
    try:
        probs, _ = export_checks(tracks, forest, sel, wd, doc["fmt"], "r",
                                 doc.get("variant", "plain"))
    finally:
        shutil.rmtree(wd, ignore_errors=True)
    return [{"clause": c, "what": w, "key": k} for c, w, k in probs]
