"""C09 - edge IoU equals the true overlap of the endpoint masks."""

from __future__ import annotations

import random

from .. import gen
from ..monitors import IouMonitor
from ..ops import DEFAULT_WEIGHTS, OpGen
from . import common

PROP = "C09"
LEVEL = "exploration"
RULE = (
    "random sessions on tracks with segmentation and many frame-skipping edges; iou enabled "
    "from construction, or enabled / disabled+re-enabled by enable_features at random points of "
    "the history (bulk path), plus the scripted scenario 'disable iou, change an endpoint mask, "
    "delete the edge or the node, enable iou, undo, redo, undo'; after every edit, undo, redo and enable every edge's stored value "
    "is compared with numpy |A&B|/|A|B| of the endpoint masks in their own frames; with "
    "probability 0.5 per step a bulk recomputation on a deep copy is compared with the stored "
    "(incrementally maintained) values. evaluations = edge comparisons; distinct = (path, "
    "operation, primitive signature)"
)
ASSUMPTIONS = ["values are judged only while the iou feature is enabled"]


def make_monitors():
    return [IouMonitor()]


def cfg_fn(rng):
    cfg = gen.random_config(rng, seg=True, p3d=0.2, extras=False)
    cfg.skip_prob = rng.choice([0.3, 0.5, 0.8])
    cfg.extra = ("iou",) if rng.random() < 0.6 else ()
    # the feature stored under another key (renamed as an importer does)
    cfg.rename = (("iou", "overlap"),) if cfg.extra and rng.random() < 0.25 else ()
    if rng.random() < 0.1:
        cfg.p_root = 1.0  # detections only: every link is made during the session
    return cfg


class FeatOpGen(OpGen):
    scenarios = ("stale",)

    """Adds enable/disable of iou at random points of the history."""

    def gen_features(self, tracks):
        ik = self.iou_key(tracks)
        on = ik in tracks.annotators.features
        if on and self.rng.random() < 0.5:
            return {"op": "features", "disable": [ik]}
        return {"op": "features", "enable": [ik]}

    def scenario_keys(self, tracks, enabled):
        return [k for k in enabled if k == self.iou_key(tracks)]


WEIGHTS = {"reload": 0.3, "paint": 7, "update_attrs": 0.2, "delete_node": 4, "add_node": 4, "features": 2,
           "scenario": 1.0}


def plan(tier, seed):
    return [{"kind": "candidate", "n": 150 if tier == "quick" else 1500,
             "seed": common.seed_for(PROP, tier, seed, "candidate")}] + \
        common.session_plan(PROP, tier, seed, quick=4800, thorough=50000)


def run_shard(spec):
    if spec.get("kind") == "candidate":
        acc = common.new_acc()
        candidate_graph_cases(random.Random(spec["seed"]), acc, spec["n"])
        return common.finish_acc(acc)
    from .. import session

    # sessions with the extended op generator
    orig = session.OpGen
    session.OpGen = FeatOpGen
    try:
        return common.run_sessions(spec, PROP, make_monitors, cfg_fn, nsteps=(12, 30),
                                   weights=WEIGHTS, refusal_rate=0.3)
    finally:
        session.OpGen = orig


def candidate_graph_cases(rng, acc, n):
    """Plain (non-solution) Tracks on a candidate-style graph: a detection may have several
    incoming edges, also from one frame. The IoU of EVERY edge, computed in bulk, equals the
    overlap of its endpoint masks."""
    import warnings

    from funtracks.data_model import Tracks

    from .. import checks

    for _ in range(n):
        T = rng.randint(2, 4)
        forest = gen.random_forest(rng, T, 3, "contig", 0.3, min_nodes=3, p_empty=0.0)
        seg = gen.make_segmentation(rng, forest, (10, 10))
        import networkx as nx

        g = nx.DiGraph()
        for node, t in forest.times.items():
            g.add_node(node, time=t)
        g.add_edges_from(forest.edges)
        # extra candidate links: second / third parents, also two from the same frame
        nodes = list(forest.times)
        for _k in range(rng.randint(1, 5)):
            u, v = rng.sample(nodes, 2)
            if forest.times[u] < forest.times[v]:
                g.add_edge(u, v)
        with warnings.catch_warnings():
            warnings.simplefilter("ignore")
            tr = Tracks(g, segmentation=seg, ndim=3)
            tr.enable_features(["iou"])
        probs, ncmp = checks.iou_values(tr)
        acc["evaluations"] += sum(ncmp.values())
        acc["counters"]["candidate-graph-cases"] = \
            acc["counters"].get("candidate-graph-cases", 0) + 1
        if any(g.in_degree(v) > 1 for v in g):
            acc["counters"]["candidate-graphs-with-merges"] = \
                acc["counters"].get("candidate-graphs-with-merges", 0) + 1
        if probs:
            acc["violations"].append({
                "clause": probs[0][0], "what": "candidate-style graph, bulk computation: "
                + probs[0][1], "key": f"C09/{probs[0][0]}/bulk/candidate-graph",
                "replay": {"kind": "candidate", "note": "re-run with a fresh generator"}})
            return


def floors(tier):
    return {"sessions": 200, "cmp-skip-bulk": 300, "cmp-skip-incremental": 300,
            "cmp-consecutive-bulk": 300, "cmp-consecutive-incremental": 300,
            "differential-skip": 300, "candidate-graphs-with-merges": 25}


def replay(doc):
    if doc.get("kind") == "candidate":
        acc = common.new_acc()
        candidate_graph_cases(random.Random(3), acc, 300)
        return acc["violations"]
    return common.replay_sessions(doc, make_monitors)
