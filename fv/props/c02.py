"""C02 - undo/redo follow a never-forgetting linear timeline."""

from __future__ import annotations

import itertools
import random

from .. import gen, session
from ..monitors import TimelineMonitor
from ..ops import OpGen
from . import common

PROP = "C02"
LEVEL = "exploration"
EXHAUSTIVE = {"quick": False, "thorough": False}
RULE = (
    "(a) bounded-exhaustive: ALL words over {E1..Ek,U,R} up to length L (quick k=3 L=5, "
    "thorough k=4 L=6) on two fixed seed forests (with / without segmentation); each Ei is an "
    "edit slot resolved deterministically against the current state (E1 add node in a new "
    "track, E2 add-or-delete an edge, E3 composite nesting user actions: swap predecessors or a "
    "stroke that deletes one node and creates another, E4 forced add); (b) sampled words of "
    "length 20-80 with undo-heavy / redo-heavy / edit-after-undo-heavy distributions over the "
    "full edit generator. After every call the canonical state is compared with the state "
    "predicted by a list+cursor timeline model, the boolean returned by undo/redo with the "
    "model, 'nothing to do' must leave the deep state unchanged, history registrations are "
    "counted per top-level action (exactly one, at nesting depth 1), and at the end the whole "
    "timeline is walked back state by state. Non-trivial = word containing an edit after an "
    "undo followed by >= 2 undos; distinct = such words (last 14 symbols) + (len, cursor) shapes"
)
ASSUMPTIONS = ["states are compared as canonical observable states (registered features + "
               "segmentation); fresh-id counters are not state"]


def make_monitors():
    return [TimelineMonitor()]


# ------------------------------------------------------------------ exhaustive words
FIXED = [
    gen.Config(ndim=3, seg=False, scale="none", pos_mode="single", build="noids", T=5,
               max_per_frame=2, id_kind="contig", skip_prob=0.2, seed=11, custom=False),
    gen.Config(ndim=3, seg=True, scale="ones", pos_mode="single", build="noids", T=4,
               max_per_frame=2, id_kind="contig", skip_prob=0.2, seed=12, extra=("iou",),
               custom=False),
]


def resolve_slot(sym: str, tracks, cfg, rng: random.Random):
    """Deterministic edit for a slot symbol in the current state (rng seeded per position)."""
    g = OpGen(cfg, rng, refusal_rate=0.0)
    if sym == "E1":
        for _ in range(10):
            op = g.gen_add_node(tracks)
            if op:
                op["track_id"] = int(tracks.get_next_track_id())
                op["force"] = False
                return op
    if sym == "E2":
        edges = sorted(tracks.graph.edges)
        if edges and rng.random() < 0.5:
            u, v = edges[rng.randrange(len(edges))]
            return {"op": "delete_edge", "edge": [int(u), int(v)]}
        for _ in range(10):
            op = g.gen_add_edge(tracks)
            if op:
                op["force"] = False
                return op
    if sym == "E3":
        if tracks.segmentation is not None and rng.random() < 0.6:
            for _ in range(10):
                op = g.gen_paint(tracks)
                if op and op["label"] != 0:
                    return op
        for _ in range(10):
            op = g.gen_swap(tracks)
            if op and len(op["nodes"]) == 2:
                return op
    if sym == "E4":
        for _ in range(10):
            op = g.gen_add_edge(tracks) if rng.random() < 0.5 else g.gen_add_node(tracks)
            if op:
                op["force"] = True
                return op
    return {"op": "undo"} if sym == "U" else {"op": "redo"} if sym == "R" else \
        {"op": "delete_edge", "edge": [9001, 9002]}


def run_word(cfg, word, seed):
    mon = TimelineMonitor()
    sess = session.Session(cfg, [mon])
    for i, sym in enumerate(word):
        if sym in ("U", "R"):
            op = {"op": "undo" if sym == "U" else "redo"}
        else:
            op = resolve_slot(sym, sess.tracks, cfg, random.Random(common.seed_for(seed, i, sym)))
        sess.step(op)
        if sess.violations or sess.hang:
            return sess, mon
    sess.finish()
    return sess, mon


def plan(tier, seed):
    k, L = (3, 5) if tier == "quick" else (4, 6)
    syms = [f"E{i + 1}" for i in range(k)] + ["U", "R"]
    nsh = 12 if tier == "quick" else 24
    specs = []
    for ci in range(len(FIXED)):
        for sh in range(nsh // 2):
            specs.append({"kind": "words", "cfg": ci, "syms": syms, "L": L, "part": sh,
                          "parts": nsh // 2, "seed": common.seed_for(PROP, tier, seed, ci)})
    specs += common.session_plan(PROP, tier, seed, quick=2400, thorough=32000,
                                 nshards_quick=8, nshards_thorough=16)
    return specs


def run_shard(spec):
    if spec["kind"] == "words":
        acc = common.new_acc()
        cfg = FIXED[spec["cfg"]]
        syms = spec["syms"]
        n = 0
        idx = 0
        for L in range(1, spec["L"] + 1):
            for word in itertools.product(syms, repeat=L):
                idx += 1
                if idx % spec["parts"] != spec["part"]:
                    continue
                # words that are a proper prefix-extension are all run: each word is its own
                # execution from the seed forest
                sess, mon = run_word(cfg, word, spec["seed"])
                n += 1
                common.merge_monitors([mon], acc)
                if len(acc["samples"]) < 1 and L == spec["L"]:
                    acc["samples"].append({"word": list(word), "ops": sess.ops[:6]})
                for v in sess.violations[:1]:
                    v = dict(v)
                    v["replay"] = sess.replay_doc(PROP, {"word": list(word)})
                    acc["violations"].append(v)
        acc["counters"]["exhaustive-words"] = n
        acc["extra"]["exhaustive_space"] = (
            f"all words over {syms} of length 1..{spec['L']} on {len(FIXED)} seed forests")
        return common.finish_acc(acc)

    def wf(rng):
        style = rng.choice(["undo-heavy", "redo-heavy", "edit-after-undo"])
        if style == "undo-heavy":
            return {"undo": 12, "redo": 4, "scenario": 1.0, "ctrl": 0.8}
        if style == "redo-heavy":
            return {"undo": 9, "redo": 9, "scenario": 1.0, "ctrl": 0.8}
        return {"undo": 8, "redo": 2, "add_node": 4, "add_edge": 5, "scenario": 1.0, "ctrl": 0.8}

    return common.run_sessions(spec, PROP, make_monitors,
                               lambda rng: gen.random_config(rng, p3d=0.1),
                               nsteps=(20, 80), weights_fn=wf, refusal_rate=0.5)


def floors(tier):
    return {"exhaustive-words": 7000 if tier == "quick" else 100000,
            "edit-after-undo-then-2-undos": 500, "undo-at-end": 100, "redo-at-end": 100,
            "walk-backs": 1000}


def replay(doc):
    return common.replay_sessions(doc, make_monitors)
