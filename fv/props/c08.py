"""C08 - node measurements equal those of the node's current mask."""

from __future__ import annotations

from .. import gen
from ..monitors import RegionpropsMonitor
from ..ops import OpGen
from . import common

PROP = "C08"
LEVEL = "exploration"
RULE = (
    "random sessions on tracks with segmentation (2D/3D, scale None/ones/anisotropic, random "
    "subsets of area/pos/ellipse_axis_radii/circularity/perimeter); after every edit, undo and "
    "redo every enabled regionprops value of every node is compared with (i) plain numpy (area "
    "= pixel count x voxel size, pos = mean coordinate x scale, rel-tol 1e-9) and (ii) a "
    "from-scratch regionprops computation on a copy of the same array, once frame by frame and "
    "once node by node on a frame that holds only that node's mask. Features are also "
    "disabled / re-enabled (with recomputation) at random points, nodes are added with "
    "measurements passed next to the pixels, and a scripted scenario (disable k, change a mask, "
    "delete the node, enable k, undo, redo, undo) is injected; 3-D ellipse_axis_radii runs on "
    "masks that contain a 2x2x2 cube. evaluations = value comparisons; distinct = (feature, "
    "operation kind, scale class, dimensionality)"
)
ASSUMPTIONS = ["2-D anisotropic perimeter/circularity excluded (scikit-image raises "
               "NotImplementedError)", "3-D ellipse_axis_radii: an edit that makes a mask flat "
               "may be refused by the library with 'math domain error' (counted as a refusal)",
               "values are judged only while their feature is enabled; enabling is always "
               "done with recomputation here (C10 covers recompute=False)"]


def make_monitors():
    return [RegionpropsMonitor()]


def cfg_fn(rng):
    cfg = gen.random_config(rng, seg=True, p3d=0.25, extras=True, ellipse3d=True)
    if cfg.ndim == 4:
        cfg.T = min(cfg.T, 4)
    return cfg


class C08OpGen(OpGen):
    scenarios = ("stale",)

    def gen_features(self, tracks):
        ik = self.iou_key(tracks)
        ks = [k for k in self.toggleable(tracks) if k != ik]
        if not ks:
            return None
        rng = self.rng
        # one key, or several in one call (enabled together, disabled together, re-enabled
        # one by one ...)
        n = 1 if rng.random() < 0.5 else rng.randint(2, min(4, len(ks)))
        sel = rng.sample(ks, min(n, len(ks)))
        on = [k for k in sel if k in tracks.annotators.features]
        if on and rng.random() < 0.55:
            return {"op": "features", "disable": on}
        return {"op": "features", "enable": sel, "recompute": True}

    def gen_rescale(self, tracks):
        """The user corrects the voxel size: tracks.scale is replaced and every enabled
        measurement recomputed in bulk; from then on the new scale is the one that counts."""
        rng = self.rng
        if tracks.scale is None:
            return None
        n = len(tracks.scale)
        new = [float(tracks.scale[0])] + [rng.choice([0.5, 1.0, 1.5, 2.0, 3.0]) for _ in range(n - 1)]
        if self.cfg.ndim == 3 and self.cfg.scale not in ("aniso", "tscale"):
            # 2-D anisotropic perimeter is unsupported by scikit-image; sessions that may
            # switch perimeter / circularity on keep an isotropic spatial scale
            new = [new[0]] + [new[1]] * (n - 1)
        return {"op": "rescale", "scale": new}

    def scenario_keys(self, tracks, enabled):
        return [k for k in enabled if k != self.iou_key(tracks)]


WEIGHTS = {"reload": 0.3, "paint": 8, "update_attrs": 0.2, "swap": 0.5, "add_node": 4, "delete_node": 3,
           "features": 1.2, "scenario": 0.8, "prim_seg": 0.6, "rescale": 0.4}


def plan(tier, seed):
    return common.session_plan(PROP, tier, seed, quick=3000, thorough=32000)


def run_shard(spec):
    return common.run_sessions(spec, PROP, make_monitors, cfg_fn, nsteps=(10, 25),
                               weights=WEIGHTS, refusal_rate=0.3, opgen=C08OpGen)


def floors(tier):
    return {"sessions": 150, "cmp-area": 500, "cmp-pos": 500, "cmp-perimeter": 500,
            "cmp-circularity": 500, "cmp-ellipse_axis_radii": 500}


def replay(doc):
    return common.replay_sessions(doc, make_monitors)
