"""C08 - node measurements equal those of the node's current mask."""

from __future__ import annotations

from .. import gen
from ..monitors import RegionpropsMonitor
from . import common

PROP = "C08"
LEVEL = "exploration"
RULE = (
    "random sessions on tracks with segmentation (2D/3D, scale None/ones/anisotropic, random "
    "subsets of area/pos/ellipse_axis_radii/circularity/perimeter); after every edit, undo and "
    "redo every enabled regionprops value of every node is compared with (i) plain numpy (area "
    "= pixel count x voxel size, pos = mean coordinate x scale, rel-tol 1e-9) and (ii) a "
    "from-scratch regionprops computation on a copy of the same array. evaluations = value "
    "comparisons; distinct = (feature, operation kind, scale class, dimensionality)"
)
ASSUMPTIONS = ["2-D anisotropic perimeter/circularity excluded (scikit-image raises "
               "NotImplementedError)", "3-D ellipse_axis_radii excluded (library raises on flat "
               "masks)", "values loaded rather than computed are not judged"]


def make_monitors():
    return [RegionpropsMonitor()]


def cfg_fn(rng):
    cfg = gen.random_config(rng, seg=True, p3d=0.2, extras=True)
    if cfg.ndim == 4:
        cfg.T = min(cfg.T, 4)
    return cfg


WEIGHTS = {"paint": 8, "update_attrs": 0.2, "swap": 0.5, "add_node": 4, "delete_node": 3}


def plan(tier, seed):
    return common.session_plan(PROP, tier, seed, quick=1200, thorough=16000)


def run_shard(spec):
    return common.run_sessions(spec, PROP, make_monitors, cfg_fn, nsteps=(10, 25),
                               weights=WEIGHTS, refusal_rate=0.3)


def floors(tier):
    return {"sessions": 150, "cmp-area": 500, "cmp-pos": 500, "cmp-perimeter": 500,
            "cmp-circularity": 500, "cmp-ellipse_axis_radii": 500}


def replay(doc):
    return common.replay_sessions(doc, make_monitors)
