"""C16 - exports, saves and queries never modify the tracks."""

from __future__ import annotations

from .. import gen
from ..monitors import ReadOnlyMonitor
from ..ops import OpGen
from . import common

PROP = "C16"
LEVEL = "exploration"
RULE = (
    "at construction and at random quiescent points of random editing sessions a random "
    "read-only operation is run (export_to_csv +-display names/subset/colours/segmentation, "
    "export_to_geff +-subset / zarr 2,3, save_tracks, split_position_attr, "
    "filter_graph_with_ancestors, every public query incl. deprecated getters) with a deep "
    "snapshot (graph incl. unregistered attributes, array bytes, scale None-ness, registry and "
    "special keys, annotator activation, both lookup tables as sorted lists, fresh-id counters, "
    "identities of both history stacks) before and after; also no refresh may be emitted. "
    "Distinct = (operation variant, scale given/None, single/per-axis position, seg/noseg)"
)
ASSUMPTIONS = ["order inside the lookup lists is not state (get_track_neighbors sorts in place)",
               "an operation that raises is still required to leave the state unchanged"]


def make_monitors():
    return [ReadOnlyMonitor()]


def cfg_fn(rng):
    return gen.random_config(rng, p3d=0.15)


WEIGHTS = {"features": 1.0, "update_attrs": 1.5, "ctrl": 1.0}


class _Gen(OpGen):
    toggle_lineage = True  # the lineage feature is also switched off / on alone


def plan(tier, seed):
    # + the repository's own test-suite, unedited, as one more workload under the same monitor
    return [common.pytest_spec(),
            {"kind": "plain", "n": 150 if tier == "quick" else 2500,
             "seed": common.seed_for(PROP, tier, seed, "plain")}] + \
        common.session_plan(PROP, tier, seed, quick=160, thorough=3000)


def run_shard(spec):
    if spec.get("kind") == "pytest":
        return common.run_pytest_shard(spec, PROP)
    if spec.get("kind") == "plain":
        import random

        acc = common.new_acc()
        plain_tracks_cases(random.Random(spec["seed"]), acc, spec["n"])
        return common.finish_acc(acc)
    return common.run_sessions(spec, PROP, make_monitors, cfg_fn, nsteps=(8, 20),
                               weights=WEIGHTS, refusal_rate=0.3, opgen=_Gen)


def plain_tracks_cases(rng, acc, n):
    """Read-only operations on a plain `Tracks` object (not a solution: no track ids, no
    lineage ids, possibly merges) - what a candidate graph or an unfinished annotation is.
    Whether the operation accepts such an object or refuses it, it must leave it alone."""
    import random as _r
    import shutil
    import warnings

    import numpy as np
    from funtracks.data_model import Tracks
    from funtracks.import_export import export_to_csv, export_to_geff, save_tracks
    from funtracks.import_export._utils import filter_graph_with_ancestors
    from funtracks.import_export.geff._export import split_position_attr

    from .. import env
    from ..canon import deep, diff, diff_sections

    wd = env.workdir("c16p")
    try:
        for i in range(n):
            cfg = gen.random_config(rng, p3d=0.15, builds=("noids",), extras=False)
            cfg.custom = False
            r2 = _r.Random(cfg.seed)
            forest = gen.random_forest(r2, cfg.T, cfg.max_per_frame, cfg.id_kind, cfg.skip_prob,
                                       p_empty=cfg.p_empty, p_root=cfg.p_root)
            if not forest.times:
                continue
            seg = gen.make_segmentation(r2, forest, cfg.frame_shape(), thick=cfg.thick,
                                        dtype=np.dtype(cfg.seg_dtype)) if cfg.seg else None
            g = gen.build_graph(cfg, forest, r2, with_ids=False, time_key="time")
            axes = ["z", "y", "x"] if cfg.ndim == 4 else ["y", "x"]
            with warnings.catch_warnings():
                warnings.simplefilter("ignore")
                t = Tracks(g, segmentation=seg, scale=cfg.scale_list(), ndim=cfg.ndim,
                           pos_attr=axes if cfg.pos_mode == "axes" else None)
            nodes = [int(x) for x in t.graph.nodes]
            sub = set(rng.sample(nodes, rng.randint(1, len(nodes))))
            u = f"{i}-{rng.randrange(1 << 30)}"
            ops = {
                "export_to_csv": lambda: export_to_csv(t, wd / f"a{u}.csv"),
                "export_to_csv/display": lambda: export_to_csv(t, wd / f"b{u}.csv",
                                                               use_display_names=True),
                "export_to_csv/subset": lambda: export_to_csv(t, wd / f"c{u}.csv",
                                                              node_ids=sub),
                "export_to_geff": lambda: export_to_geff(t, wd / f"g{u}.zarr"),
                "export_to_geff/subset": lambda: export_to_geff(t, wd / f"h{u}.zarr",
                                                                node_ids=sub),
                "save_tracks": lambda: save_tracks(t, wd / f"s{u}"),
                "split_position_attr": lambda: split_position_attr(t),
                "filter_graph_with_ancestors": lambda: filter_graph_with_ancestors(
                    t.graph, set(sub)),
                "queries": lambda: (t.nodes(), t.edges(), t.in_degree(), t.out_degree(),
                                    t.get_positions(nodes, incl_time=True),
                                    t.get_times(nodes), t.get_available_features(),
                                    t.features.dump_json()),
            }
            for name in rng.sample(sorted(ops), 3):
                before = deep(t, counters=True)
                err = None
                with warnings.catch_warnings():
                    warnings.simplefilter("ignore")
                    try:
                        ops[name]()
                    except Exception as e:  # refusing a non-solution is fine
                        err = type(e).__name__
                after = deep(t, counters=True)
                acc["evaluations"] += 1
                c = acc["counters"]
                c["plain-tracks-operations"] = c.get("plain-tracks-operations", 0) + 1
                c[f"plain-{name.split('/')[0]}"] = c.get(f"plain-{name.split('/')[0]}", 0) + 1
                if err:
                    c["plain-tracks-operation-refused"] = \
                        c.get("plain-tracks-operation-refused", 0) + 1
                acc["keys"].add(f"plain/{name}/{'refused:' + err if err else 'ok'}/"
                                f"{'seg' if cfg.seg else 'noseg'}")
                if before != after:
                    acc["violations"].append({
                        "clause": "read-only-changed-state",
                        "what": f"{name} on a plain Tracks object "
                                f"({'raised ' + err if err else 'completed'}) changed "
                                f"{diff_sections(before, after)}: {diff(before, after)[:5]}",
                        "key": f"C16/changed/plain-tracks/{name.split('/')[0]}",
                        "replay": {"kind": "plain", "note": "re-run with a fresh generator"}})
                    return
            if i % 20 == 19:
                shutil.rmtree(wd, ignore_errors=True)
                wd.mkdir(parents=True, exist_ok=True)
    finally:
        shutil.rmtree(wd, ignore_errors=True)


def floors(tier):
    return {"plain-tracks-operations": 200, "plain-export_to_csv": 50, "sessions": 100, "op-export_to_csv": 200, "op-export_to_geff": 100,
            "op-save_tracks": 40, "op-split_position_attr": 40,
            "op-filter_graph_with_ancestors": 40, "op-queries": 200}


def replay(doc):
    if doc.get("kind") == "pytest":
        return common.replay_pytest(doc, PROP)
    if doc.get("kind") == "plain":
        import random

        acc = common.new_acc()
        plain_tracks_cases(random.Random(7), acc, 300)
        return acc["violations"]
    return common.replay_sessions(doc, make_monitors)
