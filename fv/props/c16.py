"""C16 - exports, saves and queries never modify the tracks."""

from __future__ import annotations

from .. import gen
from ..monitors import ReadOnlyMonitor
from ..ops import OpGen
from . import common

PROP = "C16"
LEVEL = "exploration"
RULE = (
    "at construction and at random quiescent points of random editing sessions a random "
    "read-only operation is run (export_to_csv +-display names/subset/colours/segmentation, "
    "export_to_geff +-subset / zarr 2,3, save_tracks, split_position_attr, "
    "filter_graph_with_ancestors, every public query incl. deprecated getters) with a deep "
    "snapshot (graph incl. unregistered attributes, array bytes, scale None-ness, registry and "
    "special keys, annotator activation, both lookup tables as sorted lists, fresh-id counters, "
    "identities of both history stacks) before and after; also no refresh may be emitted. "
    "Distinct = (operation variant, scale given/None, single/per-axis position, seg/noseg)"
)
ASSUMPTIONS = ["order inside the lookup lists is not state (get_track_neighbors sorts in place)",
               "an operation that raises is still required to leave the state unchanged"]


def make_monitors():
    return [ReadOnlyMonitor()]


def cfg_fn(rng):
    return gen.random_config(rng, p3d=0.15)


WEIGHTS = {"features": 1.0, "update_attrs": 1.5, "ctrl": 1.0}


class _Gen(OpGen):
    toggle_lineage = True  # the lineage feature is also switched off / on alone


def plan(tier, seed):
    # + the repository's own test-suite, unedited, as one more workload under the same monitor
    return [common.pytest_spec()] + common.session_plan(PROP, tier, seed, quick=160, thorough=3000)


def run_shard(spec):
    if spec.get("kind") == "pytest":
        return common.run_pytest_shard(spec, PROP)
    return common.run_sessions(spec, PROP, make_monitors, cfg_fn, nsteps=(8, 20),
                               weights=WEIGHTS, refusal_rate=0.3, opgen=_Gen)


def floors(tier):
    return {"sessions": 100, "op-export_to_csv": 200, "op-export_to_geff": 100,
            "op-save_tracks": 40, "op-split_position_attr": 40,
            "op-filter_graph_with_ancestors": 40, "op-queries": 200}


def replay(doc):
    if doc.get("kind") == "pytest":
        return common.replay_pytest(doc, PROP)
    return common.replay_sessions(doc, make_monitors)
