"""C05 - lineage ids label exactly the connected components."""

from __future__ import annotations

import random

from .. import checks, gen
from ..monitors import IdMonitor
from . import c06 as _c06
from . import common

PROP = "C05"
WHICH = "lineage"
LEVEL = "exploration"
RULE = (
    "(a) construction: random forests (empty, isolated nodes, divisions, skip edges) built through "
    "the three construction routes, partition by get_lineage_id compared with an own union-find "
    "over all edges (direction ignored); (b) random editing sessions: same oracle "
    "after every call plus the frame clause (nodes whose component, before and after, contains "
    "no named node and no node of a named track keep their id; for undo/redo the names of the "
    "action being inverted, tracked by an own history model). Non-trivial = accepted edit that "
    "changed nodes/edges; distinct by (action, primitive signature, roles of named nodes, force)"
)
ASSUMPTIONS = ["track-id and lineage-id features stay enabled while edits run",
               "documented preconditions of the user actions honoured"]


def make_monitors():
    return [IdMonitor(WHICH)]


def cfg_fn(rng):
    cfg = gen.random_config(rng, p3d=0.1, extras=False)
    cfg.custom = False
    return cfg


WEIGHTS = {"ctrl": 0.8, "scenario": 0.6, "update_attrs": 0.2, "add_edge": 5, "delete_edge": 4, "delete_node": 4}


def _lineage_off(gen, tracks):
    return {"op": "features", "disable": [tracks.features.lineage_key]}


def _lineage_on(gen, tracks):
    return {"op": "features", "enable": [tracks.features.lineage_key], "recompute": True}


def _tail(gen, tracks):
    """Alternative ending: the lineage feature is switched off, the graph is edited (splits,
    joins), the feature is switched on again with bulk recomputation, and editing goes on."""
    return None


TAIL_LINEAGE = [_lineage_off, _c06._edit, _c06._edit, _c06._edit, _lineage_on, _c06._edit,
                _c06._edit]


def plan(tier, seed):
    specs = common.session_plan(PROP, tier, seed, quick=7200, thorough=80000)
    specs.append({"kind": "construct", "n": 1500 if tier == "quick" else 20000,
                  "seed": common.seed_for(PROP, tier, seed, "construct")})
    return specs


def run_shard(spec):
    if spec["kind"] == "construct":
        return construct_shard(spec, WHICH, PROP)
    return common.run_sessions(spec, PROP, make_monitors, cfg_fn, nsteps=(15, 35),
                               weights=WEIGHTS, refusal_rate=0.4, history_share=0.25,
                               tail=(TAIL_LINEAGE if spec["shard"] % 2 else _c06.TAIL), tail_share=0.3)


def construct_shard(spec, which, prop):
    """Constructor clause: many forests, no editing."""
    from ..session import Session

    rng = random.Random(spec["seed"])
    acc = common.new_acc()
    for i in range(spec["n"]):
        cfg = gen.random_config(rng, seg=False, extras=False, builds=("noids", "df", "ids_fd"))
        cfg.custom = False
        cfg.T = rng.randint(1, 8)
        cfg.max_per_frame = rng.choice([0, 1, 2, 3, 5])
        cfg.skip_prob = rng.choice([0, 0.3, 0.8])
        m = IdMonitor(which)
        sess = Session(cfg, [m])
        common.merge_monitors([m], acc)
        for v in sess.violations[:1]:
            v = dict(v)
            v["replay"] = sess.replay_doc(prop)
            acc["violations"].append(v)
        if not acc["samples"]:
            acc["samples"].append({"config": cfg.tag(), "nodes": dict(sess.forest.times),
                                   "edges": sess.forest.edges})
    return common.finish_acc(acc)


def floors(tier):
    return {"sessions": 300, "constructions": 600, "accepted-UserAddEdge": 100,
            "accepted-UserDeleteEdge": 100, "accepted-UserDeleteNode": 100,
            "accepted-UserAddNode": 100, "accepted-UserSwapPredecessors": 20,
            "accepted-UserUpdateSegmentation": 50, "sit-edge-creates-division": 30,
            "sit-delete-division-edge": 30, "sit-delete-dividing-node": 10,
            "sit-delete-first-after-division": 10, "sit-join": 30, "sit-forced-detach": 20,
            "frame-protected-nodes": 1000}


def replay(doc):
    return common.replay_sessions(doc, make_monitors)
