"""C06 - lookups and freshly issued ids agree with the graph."""

from __future__ import annotations

from .. import gen
from ..monitors import LookupMonitor
from . import common

PROP = "C06"
LEVEL = "exploration"
RULE = (
    "random editing sessions biased to delete-then-undo, relabel-then-delete, emptying a track "
    "and re-using its id, nodes added with far non-contiguous track ids, redo after "
    "edit-after-undo; after every call: track_id_to_node and lineage_id_to_nodes compared with a "
    "scan of the graph (stale / missing / duplicated entries), get_track_neighbors and "
    "has_track_id_at_time compared with a scan for every track id (+ an unused one) and every "
    "t in [-1, T], get_next_track_id / get_next_lineage_id / _get_new_node_ids checked for "
    "freshness. evaluations = query comparisons; distinct = (cache shape, operation) pairs"
)
ASSUMPTIONS = ["preservation form: a lookup clause is reported when it turns false, not again "
               "while it stays false", "track/lineage features stay enabled"]


def make_monitors():
    return [LookupMonitor()]


def cfg_fn(rng):
    cfg = gen.random_config(rng, p3d=0.1, extras=False)
    cfg.custom = False
    return cfg


WEIGHTS = {"ctrl": 0.8, "scenario": 0.6, "undo": 5, "redo": 3, "delete_node": 5, "add_node": 5, "update_attrs": 0.2,
           "delete_edge": 4}


def plan(tier, seed):
    return common.session_plan(PROP, tier, seed, quick=6000, thorough=60000)


def _recompute(gen, tracks):
    if gen.rng.random() < 0.5:
        # or: save, load, and go on with the loaded object (its id tables and counters are
        # initialised from the ids found on the graph)
        return {"op": "reload"}
    f = tracks.features
    keys = gen.rng.choice([[f.tracklet_key, f.lineage_key], [f.tracklet_key],
                           [f.lineage_key]])
    return {"op": "features", "enable": keys, "recompute": True}


def _add_on_next_track(gen, tracks):
    for _ in range(10):
        op = gen.gen_add_node(tracks)
        if op is not None and "omit" not in op:
            op["track_id"] = int(tracks.get_next_track_id())
            op["force"] = False
            return op
    return None


def _edit(gen, tracks):
    for _ in range(10):
        op = gen.rng.choice([gen.gen_add_edge, gen.gen_delete_edge, gen.gen_delete_node])(tracks)
        if op is not None:
            return op
    return None


# after the random part: the id features are recomputed in bulk (ids renumbered 1..n, lookup
# tables rebuilt), then ids are issued and used again. The older history refers to the old
# numbering and is not walked any more after this point.
TAIL = [_recompute, _add_on_next_track, _edit, _edit, _edit]


def run_shard(spec):
    return common.run_sessions(spec, PROP, make_monitors, cfg_fn, nsteps=(15, 40),
                               weights=WEIGHTS, refusal_rate=0.4, history_share=0.25,
                               tail=TAIL, tail_share=0.4)


def floors(tier):
    return {"id-recomputations": 100, "sessions": 250, "query-comparisons": 10000, "fresh-node-id-calls": 200,
            "after-undo": 200, "after-redo": 100}


def replay(doc):
    return common.replay_sessions(doc, make_monitors)
