"""C12 - import reproduces the source table or graph faithfully."""

from __future__ import annotations

import random
import shutil
import warnings

import numpy as np

from .. import env, gen, oracles as O
from . import common

PROP = "C12"
LEVEL = "exploration"
RULE = (
    "random forests turned into (a) DataFrames: ids contiguous / non-contiguous / strings, "
    "roots encoded as -1 / NaN / empty (through a CSV file), 2-D / 3-D positions, extra custom "
    "columns (int, float, str, bool), a uid column carrying the original id (so renumbering is "
    "checkable), columns renamed and shuffled with the corresponding node_name_map (single keys "
    "and composite pos, also in a permuted axis order), optional valid / invalid track_id "
    "column, optional mapped lineage_id column (arbitrary valid ids), node ids that include 0; "
    "(b) GEFF stores written with geff.write under arbitrary property names and read "
    "with import_from_geff(node_name_map). Oracle: nodes = source ids (or the uid bijection), "
    "edges = source (parent, child) pairs, time / pos (mapped order) / every mapped property "
    "equal row by row, a supplied valid track_id column kept as given (an invalid one is not "
    "judged: the property only speaks about mapped values). Malformed variants "
    "of every shape (duplicate id, parent that is no row, self-parent, missing required column, "
    "mapping to a non-existent column, negative parent other than the -1 placeholder; GEFF: duplicate node id / dangling edge / self edge "
    "written into the zarr arrays) must raise ValueError. Distinct = (source, id kind, root "
    "encoding, ndim, mapping kind, track-id column, malformation)"
)
ASSUMPTIONS = ["ids in GEFF stores are integers (format requirement)",
               "well-formed = unique ids, every parent is a row, no self-parent"]

RENAMES = {"time": ["time", "t", "frame"], "id": ["id", "cell", "node"],
           "parent_id": ["parent_id", "mother", "parent"]}


def gen_table(rng):
    nd = rng.choice([2, 2, 3])
    T = rng.randint(1, 6)
    forest = gen.random_forest(rng, T, rng.choice([1, 2, 3]),
                               rng.choice(["contig", "sparse", "zero"]),
                               rng.choice([0, 0.3]), min_nodes=1, p_empty=0.1)
    idkind = rng.choice(["int", "int", "str", "float"])
    ids = list(forest.times)
    # float ids with fractional parts (several of them truncate to the same integer)
    ext = {n: (f"c{n:03d}" if idkind == "str" else (n // 3 + (n % 3) / 4 + 0.25)
               if idkind == "float" else n) for n in ids}
    rootenc = rng.choice(["-1", "nan", "empty"]) if idkind == "int" else rng.choice(["nan",
                                                                                       "empty"])
    axes = ["z", "y", "x"][-nd:]
    parent = forest.parent()
    mapkind = rng.choice(["identity", "renamed", "renamed", "permuted-pos"])
    names = {k: (rng.choice(v) if mapkind != "identity" else k) for k, v in RENAMES.items()}
    posnames = [a if mapkind == "identity" else rng.choice([a, a.upper(), f"pos_{a}", f"c{a}"])
                for a in axes]
    order = list(range(nd))
    if mapkind == "permuted-pos":
        rng.shuffle(order)
    rows = []
    int_first = rng.random() < 0.25
    customs = {"score": "float", "count": "int", "kind": "str", "flag": "bool"}
    use_custom = [c for c in customs if rng.random() < 0.5]
    tid_mode = rng.choice(["none", "none", "valid", "invalid"])
    segs = sorted(O.segment_partition(ids, forest.edges), key=min)
    tids = rng.sample(range(1, 3 * len(segs) + 3), len(segs))
    tid_of = {n: tids[i] for i, c in enumerate(segs) for n in c}
    if tid_mode == "invalid":
        if len(ids) >= 2 and len(set(tid_of.values())) >= 1:
            # break the labelling: two different segments share an id, or one segment is split
            a = rng.choice(ids)
            tid_of[a] = max(tids) + 5 if len([n for n in ids if tid_of[n] == tid_of[a]]) > 1 \
                else next((tid_of[b] for b in ids if tid_of[b] != tid_of[a]), None)
            if tid_of[a] is None:
                tid_mode = "valid"
                tid_of[a] = tids[0]
        else:
            tid_mode = "valid"
    # lineage ids: arbitrary (non-canonical) but valid - one id per connected component
    lid_mode = rng.choice(["none", "none", "valid", "invalid"])
    comps = sorted(O.component_partition(ids, forest.edges), key=min)
    lids = rng.sample(range(5, 3 * len(comps) + 40), len(comps))
    lid_of = {n: lids[i] for i, c in enumerate(comps) for n in c}
    if lid_mode == "invalid":
        if len(comps) >= 2:
            # two unconnected components share a lineage id
            a_, b_ = rng.sample(range(len(comps)), 2)
            for n in comps[b_]:
                lid_of[n] = lids[a_]
        else:
            lid_mode = "valid"
    for n in ids:
        row = {names["time"]: forest.times[n], names["id"]: ext[n]}
        p = parent.get(n)
        if p is None:
            row[names["parent_id"]] = {"-1": -1, "nan": np.nan, "empty": np.nan}[rootenc]
        else:
            row[names["parent_id"]] = ext[p]
        pos = [round(rng.uniform(0, 50), 3) for _ in axes]
        if int_first:
            pos[0] = int(pos[0])  # an integer-typed first coordinate column (plane / row index)
        for a, v in zip(posnames, pos):
            row[a] = v
        row["uid"] = str(ext[n])
        if "score" in use_custom:
            row["score"] = rng.choice([0.0, round(rng.random(), 4), round(rng.random(), 4)])
        if "count" in use_custom:
            row["count"] = rng.choice([0, rng.randint(0, 99), rng.randint(1, 99)])
        if "kind" in use_custom:
            row["kind"] = rng.choice(["a", "bb", "ccc"])
        if "flag" in use_custom:
            row["flag"] = rng.random() < 0.5
        if tid_mode != "none":
            row["tid_col"] = tid_of[n]
        if lid_mode != "none":
            row["lin_col"] = lid_of[n]
        rows.append(row)
    # measurement columns with empty cells (not every detection was measured); zeros next to
    # the gaps are values, not gaps
    gaps = [c for c in ("score", "count") if c in use_custom and len(rows) >= 3
            and rng.random() < 0.5]
    for c in gaps:
        holes = rng.sample(range(len(rows)), rng.randint(1, max(1, len(rows) // 3)))
        for i_ in holes:
            rows[i_][c] = np.nan
        if all(isinstance(r[c], float) and r[c] != r[c] for r in rows):
            rows[0][c] = 1  # (an all-empty column is not a property column)
    cols = list(rows[0].keys())
    rng.shuffle(cols)
    nm = {"time": names["time"], "id": names["id"], "parent_id": names["parent_id"],
          "pos": [posnames[i] for i in order], "uid": "uid"}
    for c in use_custom:
        nm[c] = c
    if tid_mode != "none":
        nm["track_id"] = "tid_col"
    if lid_mode != "none":
        nm["lineage_id"] = "lin_col"
    has_div = any(sum(1 for e in forest.edges if e[0] == u) == 2 for u in ids)
    # a measurement column loaded through the `features` argument; the index of the frame
    index_kind = rng.choice(["default", "default", "shuffled", "offset", "labels"])
    load_area = rng.random() < 0.3
    if load_area:
        for r in rows:
            r["area"] = round(rng.uniform(1, 90), 2)
        cols = list(rows[0].keys())
        rng.shuffle(cols)
    return {"index_kind": index_kind, "load_area": load_area, "shuffle_seed": rng.randrange(10**6),
            "lid_mode": lid_mode, "has_div": has_div, "zero_id": 0 in ids and idkind == "int",
            "nd": nd, "rows": rows, "cols": cols, "nm": nm, "idkind": idkind,
            "rootenc": rootenc, "mapkind": mapkind, "order": order, "posnames": posnames,
            "names": names, "customs": use_custom, "gaps": gaps, "tid_mode": tid_mode,
            "edges": [(str(ext[u]), str(ext[v])) for u, v in forest.edges],
            "int_edges": list(forest.edges), "malform": None}


MALFORMS = ["duplicate-id", "unknown-parent", "self-parent", "missing-column", "bad-mapping",
            "negative-parent"]


def malform(case, rng, kind):
    rows = [dict(r) for r in case["rows"]]
    names = case["names"]
    nm = dict(case["nm"])
    cols = list(case["cols"])
    if kind == "duplicate-id":
        r = dict(rng.choice(rows))
        rows.append(r)
    elif kind == "unknown-parent":
        r = rng.choice(rows)
        r[names["parent_id"]] = {"str": "zz999", "float": 98765.5}.get(case["idkind"], 987654)
    elif kind == "self-parent":
        r = rng.choice(rows)
        r[names["parent_id"]] = r[names["id"]]
    elif kind == "negative-parent":
        # -1 is the documented 'no parent' placeholder; any other negative value is a link
        # to a node that is not in the table
        if case["idkind"] != "int":
            return malform(case, rng, "unknown-parent")
        r = rng.choice(rows)
        r[names["parent_id"]] = rng.choice([-2, -3, -10])
    elif kind == "missing-column":
        drop = rng.choice([names["time"], names["id"], names["parent_id"], case["posnames"][0]])
        rows = [{k: v for k, v in r.items() if k != drop} for r in rows]
        cols = [c for c in cols if c != drop]
    elif kind == "bad-mapping":
        key = rng.choice(["time", "id", "parent_id"])
        nm[key] = "no_such_column"
    c = dict(case)
    c.update(rows=rows, nm=nm, cols=cols, malform=kind, base_rows=case["rows"])
    return c


def make_df(case, wd, through_csv):
    import pandas as pd

    df = pd.DataFrame(case["rows"])[case["cols"]]
    if case["rootenc"] == "empty" or through_csv:
        p = wd / "t.csv"
        df.to_csv(p, index=False)  # NaN is written as an empty field
        df = pd.read_csv(p, dtype={"uid": str})
    # the row labels of the frame are the caller's business: shuffled rows that keep their
    # labels, a filtered frame (labels with gaps / an offset), arbitrary labels
    kind = case.get("index_kind", "default")
    if kind == "shuffled":
        df = df.sample(frac=1, random_state=case.get("shuffle_seed", 0))
    elif kind == "offset":
        df.index = [3 * i + 7 for i in range(len(df))]
    elif kind == "labels":
        df.index = [f"row{i}" for i in range(len(df))][::-1]
    return df


def judge_df(case, wd):
    from funtracks.import_export import tracks_from_df

    df = make_df(case, wd, through_csv=False)
    nm_obj = dict(case["nm"])  # ONE mapping object owned by the caller
    feats = {"Area": "area"} if case.get("load_area") and "area" in df.columns else None
    with warnings.catch_warnings():
        warnings.simplefilter("ignore")
        try:
            tracks = tracks_from_df(df, node_name_map=nm_obj, features=feats)
        except Exception as e:
            if case["malform"]:
                if isinstance(e, ValueError):
                    return []
                return [("malformed-wrong-exception", f"{case['malform']}: raised "
                         f"{type(e).__name__}: {str(e)[:200]} (expected ValueError)",
                         f"C12/df/malformed/{case['malform']}/{type(e).__name__}")]
            return [("import-raised", f"well-formed table refused: {type(e).__name__}: "
                     f"{str(e)[:300]} (ids {case['idkind']}, roots {case['rootenc']}, map "
                     f"{case['mapkind']}, names {case['names']})",
                     f"C12/df/raised/{case['idkind']}/"
                     f"{'renamed-id' if case['names']['id'] != 'id' or case['names']['parent_id'] != 'parent_id' else 'plain-id'}"
                     f"/{type(e).__name__}")]
    if case["malform"]:
        return [("malformed-accepted", f"{case['malform']} table was imported "
                 f"({tracks.graph.number_of_nodes()} nodes)",
                 f"C12/df/malformed/{case['malform']}/accepted")]
    probs = compare(case, tracks, "df")
    if feats and not probs:
        rows = {str(r["uid"]): r for r in case["rows"]}
        for n in tracks.graph.nodes:
            v = tracks.get_node_attr(n, "area")
            if v is None or float(v) != rows[str(tracks.get_node_attr(n, "uid"))]["area"]:
                probs.append(("loaded-feature", f"node {n}: area loaded through features= is "
                              f"{v!r}, source {rows[str(tracks.get_node_attr(n, 'uid'))]['area']}",
                              "C12/df/loaded-feature/area"))
                break
        # the caller imports the next table with the SAME mapping object (this one has no
        # measurement column): it is as well-formed as the first one
        if not probs:
            with warnings.catch_warnings():
                warnings.simplefilter("ignore")
                try:
                    again = tracks_from_df(df.drop(columns=["area"]), node_name_map=nm_obj)
                    if set(again.graph.nodes) != set(tracks.graph.nodes) or \
                            set(again.graph.edges) != set(tracks.graph.edges):
                        probs.append(("second-import", "second import with the same mapping "
                                      "object gave a different graph", "C12/df/second-import"))
                except Exception as e:
                    probs.append(("second-import", f"well-formed second table refused when the "
                                  f"caller re-used its mapping object: {type(e).__name__}: "
                                  f"{str(e)[:200]}", "C12/df/second-import/raised"))
    return probs


def compare(case, tracks, src):
    probs = []
    g = tracks.graph
    rows = {str(r["uid"]): r for r in case["rows"]}
    uid_of = {n: str(tracks.get_node_attr(n, "uid")) for n in g.nodes}
    if sorted(uid_of.values()) != sorted(rows):
        return [("nodes", f"imported uids {sorted(uid_of.values())} != source {sorted(rows)}",
                 f"C12/{src}/nodes")]
    if case["idkind"] == "int":
        if set(int(n) for n in g.nodes) != {int(u) for u in rows}:
            probs.append(("nodes", f"node ids {sorted(g.nodes)} != source ids", f"C12/{src}/ids"))
    if len(set(g.nodes)) != len(rows):
        probs.append(("nodes", "renumbering is not one-to-one", f"C12/{src}/bijection"))
    got_edges = {(uid_of[u], uid_of[v]) for u, v in g.edges}
    if got_edges != set(map(tuple, case["edges"])):
        probs.append(("edges", f"links {sorted(got_edges)} != source {sorted(case['edges'])}",
                      f"C12/{src}/edges"))
    names = case["names"]
    for n in g.nodes:
        r = rows[uid_of[n]]
        if tracks.get_time(n) != r[names["time"]]:
            probs.append(("time", f"node {n}: time {tracks.get_time(n)} != {r[names['time']]}",
                          f"C12/{src}/time"))
            break
        exp_pos = [r[case["posnames"][i]] for i in case["order"]]
        if not O.close(tracks.get_position(n), exp_pos, rel=0, abs_=0):
            probs.append(("pos", f"node {n}: pos {tracks.get_position(n)} != mapped order "
                          f"{exp_pos}", f"C12/{src}/pos/{case['mapkind']}"))
            break
        for c in case["customs"]:
            v = tracks.get_node_attr(n, c)
            if isinstance(v, np.generic):
                v = v.item()
            if isinstance(r[c], float) and r[c] != r[c]:
                # an empty cell: the node has no value
                if not (v is None or (isinstance(v, float) and v != v)):
                    probs.append(("custom", f"node {n}: {c} = {v!r} for an empty cell",
                                  f"C12/{src}/custom/{c}/empty-cell"))
                    break
                continue
            if v != r[c]:
                probs.append(("custom", f"node {n}: {c} = {v!r} != {r[c]!r}",
                              f"C12/{src}/custom/{c}"))
                break
    if not probs:
        # whatever id columns were supplied (valid ones are kept, invalid ones replaced), the
        # imported solution's ids label the segments / components
        from .. import checks as _checks

        for fn, what in ((_checks.track_partition, "track"), (_checks.lineage_partition,
                                                               "lineage")):
            if what == "track" and case["tid_mode"] == "invalid":
                # a supplied labelling that is not the maximal-segment one (a segment split
                # over two ids, say) is still a set of linear tracklets: the importer keeps
                # it as mapped, and C04 does not speak about supplied ids
                continue
            try:
                bad = fn(tracks)
            except Exception as e:  # e.g. node ids that are not integers
                probs.append((f"{what}-ids-after-import", f"reading the {what} ids of the "
                              f"imported solution node by node raised {type(e).__name__}: "
                              f"{str(e)[:200]} (node ids {list(g.nodes)[:5]})",
                              f"C12/{src}/{what}-ids-after-import/raised/{type(e).__name__}"))
                break
            if bad:
                probs.append((f"{what}-ids-after-import", f"tid column {case['tid_mode']}, "
                              f"lineage column {case.get('lid_mode')}: {bad[0][1][:300]}",
                              f"C12/{src}/{what}-ids-invalid-after-import/"
                              f"tid={case['tid_mode']}/lid={case.get('lid_mode')}"))
                break
    if case.get("lid_mode") == "valid" and not probs:
        for n in g.nodes:
            if tracks.get_lineage_id(n) != rows[uid_of[n]]["lin_col"]:
                probs.append(("lineage-id-kept", f"valid mapped lineage id of node {n} replaced: "
                              f"{tracks.get_lineage_id(n)} != {rows[uid_of[n]]['lin_col']}",
                              f"C12/{src}/lineage-id-not-kept"))
                break
    if case["tid_mode"] == "valid" and not probs:
        for n in g.nodes:
            if tracks.get_track_id(n) != rows[uid_of[n]]["tid_col"]:
                probs.append(("track-id-kept", f"valid supplied track id of node {n} replaced: "
                              f"{tracks.get_track_id(n)} != {rows[uid_of[n]]['tid_col']}",
                              f"C12/{src}/track-id-not-kept"))
                break
    return probs


# ----------------------------------------------------------------------------- GEFF
def judge_geff(case, wd, rng):
    import geff
    import networkx as nx
    import zarr

    from funtracks.import_export import import_from_geff

    if case["idkind"] != "int":
        return None
    g = nx.DiGraph()
    names = case["names"]
    for r in case.get("base_rows") or case["rows"]:
        attrs = {k: v for k, v in r.items() if k not in (names["id"], names["parent_id"])}
        g.add_node(int(r[names["id"]]), **attrs)
    g.add_edges_from(case["int_edges"])
    # two measurement columns with gaps (not every node was measured), mapped as one
    # two-valued property AND the first of them once more on its own
    gaps = {}
    if not case["malform"] and len(g) >= 3 and rng.random() < 0.3:
        for n_ in g.nodes:
            a_ = round(rng.uniform(1, 9), 2) if rng.random() < 0.7 else None
            b_ = round(rng.uniform(1, 9), 2) if rng.random() < 0.7 else None
            if a_ is not None:
                g.nodes[n_]["m_a"] = a_
            if b_ is not None:
                g.nodes[n_]["m_b"] = b_
            gaps[n_] = (a_, b_)
        if not any(v[0] is not None for v in gaps.values()) or \
                not any(v[1] is not None for v in gaps.values()):
            for n_ in g.nodes:
                g.nodes[n_].pop("m_a", None)
                g.nodes[n_].pop("m_b", None)
            gaps = {}
    # edge properties, one of them imported under a key that is spelled like a node column
    # of the position mapping (a valid edge mapping: node and edge keys live apart)
    ekeys = {}
    if case["int_edges"] and not case["malform"]:
        for i_, (u_, v_) in enumerate(case["int_edges"]):
            g.edges[u_, v_]["e_w"] = 0.5 + i_
            g.edges[u_, v_]["e_d"] = -1.0 * i_
        ekeys = {"w": "e_w", case["posnames"][0]: "e_d"}
        if rng.random() < 0.4:
            ekeys["disp"] = ["e_d", "e_w"]  # a two-column edge property, in mapped order
    d = wd / "g.zarr"
    if d.exists():
        shutil.rmtree(d)
    with warnings.catch_warnings():
        warnings.simplefilter("ignore")
        geff.write(g, d, axis_names=[names["time"]] + case["posnames"],
                   axis_types=["time"] + ["space"] * case["nd"])
    nm = {k: v for k, v in case["nm"].items() if k not in ("id", "parent_id")}
    if gaps:
        nm["m_pair"] = ["m_a", "m_b"]
        nm["m_a_alone"] = "m_a"
    mal = case["malform"]
    if mal:
        z = zarr.open(str(d), mode="r+")
        ids = z["nodes/ids"][:]
        eids = z["edges/ids"][:]
        if mal == "duplicate-id" and len(ids) >= 2:
            ids[1] = ids[0]
            z["nodes/ids"][:] = ids
        elif mal == "unknown-parent" and len(eids) >= 1:
            eids[0, 0] = 987654
            z["edges/ids"][:] = eids
        elif mal == "self-parent" and len(eids) >= 1:
            eids[0, 0] = eids[0, 1]
            z["edges/ids"][:] = eids
        elif mal == "bad-mapping":
            nm["time"] = "no_such_prop"
        else:
            return None
    with warnings.catch_warnings():
        warnings.simplefilter("ignore")
        try:
            tracks = import_from_geff(d, node_name_map=nm, edge_name_map=ekeys or None,
                                      edge_features={k_: False for k_ in ekeys} or None)
        except Exception as e:
            if mal:
                if isinstance(e, ValueError):
                    return []
                return [("malformed-wrong-exception", f"GEFF {mal}: raised {type(e).__name__}: "
                         f"{str(e)[:200]} (expected ValueError)",
                         f"C12/geff/malformed/{mal}/{type(e).__name__}")]
            return [("import-raised", f"well-formed GEFF refused: {type(e).__name__}: "
                     f"{str(e)[:300]}", f"C12/geff/raised/{type(e).__name__}")]
    if mal:
        return [("malformed-accepted", f"GEFF {mal} store was imported",
                 f"C12/geff/malformed/{mal}/accepted")]
    probs = compare(case, tracks, "geff")
    if not probs and gaps:
        for n_, (a_, b_) in gaps.items():
            got = tracks.get_node_attr(n_, "m_a_alone")
            got = None if got is None or (isinstance(got, float) and got != got) else float(got)
            if got != a_:
                probs.append(("custom", f"node {n_}: m_a_alone (column m_a, also the first "
                              f"component of the two-valued m_pair) is {got!r}, source {a_!r}",
                              "C12/geff/custom/column-mapped-twice-with-gaps"))
                break
    if not probs and ekeys:
        for (u_, v_) in case["int_edges"]:
            for key_, src_ in ekeys.items():
                got = tracks.get_edge_attr((u_, v_), key_)
                if isinstance(src_, list):
                    exp_ = [float(g.edges[u_, v_][c_]) for c_ in src_]
                    if got is None or [float(x_) for x_ in got] != exp_:
                        probs.append(("edge-property", f"edge ({u_},{v_}) {key_} (from {src_}): "
                                      f"{got!r} != {exp_!r}",
                                      "C12/geff/edge-property/multi-column"))
                        return probs
                    continue
                if got is None or float(got) != float(g.edges[u_, v_][src_]):
                    probs.append(("edge-property", f"edge ({u_},{v_}) {key_} (from {src_}): "
                                  f"{got!r} != {g.edges[u_, v_][src_]!r}",
                                  f"C12/geff/edge-property/"
                                  f"{'w' if key_ == 'w' else 'key-like-node-column'}"))
                    return probs
    return probs


def judge_df_with_seg(rng):
    """A table whose nodes refer to a label image AND carry recorded positions (a pixel of
    the mask, not its centroid): the mapped position columns are source values like any
    other; imported through tracks_from_df or through a builder that was prepared first, the
    position mapped as "pos" or with the legacy per-axis keys."""
    import pandas as pd

    from funtracks.import_export import CSVTracksBuilder, tracks_from_df

    T = rng.randint(2, 4)
    forest = gen.random_forest(rng, T, 2, "sparse", 0.2, min_nodes=2, p_empty=0.0)
    seg = gen.make_segmentation(rng, forest, (10, 10))
    parent = forest.parent()
    rows = []
    for n, t in forest.times.items():
        px = np.argwhere(seg[t] == n)
        y, x = px[rng.randrange(len(px))]
        rows.append({"time": t, "id": n, "parent_id": parent.get(n, -1), "seg_id": n,
                     "y": float(y), "x": float(x)})
    df = pd.DataFrame(rows)
    legacy = rng.random() < 0.5
    nm = {"time": "time", "id": "id", "parent_id": "parent_id", "seg_id": "seg_id"}
    if legacy:
        nm.update({"y": "y", "x": "x"})
    else:
        nm["pos"] = ["y", "x"]
    how = rng.choice(["function", "builder-prepared-first"])
    key = f"C12/df+seg/{how}/{'legacy-axis-keys' if legacy else 'pos-list'}"
    with warnings.catch_warnings():
        warnings.simplefilter("ignore")
        try:
            if how == "function":
                tracks = tracks_from_df(df, segmentation=seg.copy(), node_name_map=dict(nm))
            else:
                b = CSVTracksBuilder()
                b.prepare(df, seg.copy())
                b.node_name_map = dict(nm)
                tracks = b.build(df, seg.copy())
        except Exception as e:
            return [("import-raised", f"table with label image refused ({how}, "
                     f"{'legacy' if legacy else 'pos'} keys): {type(e).__name__}: "
                     f"{str(e)[:200]}", key + f"/raised/{type(e).__name__}")], key
    probs = []
    if set(int(n) for n in tracks.graph.nodes) != set(forest.times) or \
            set((int(u), int(v)) for u, v in tracks.graph.edges) != set(forest.edges):
        probs.append(("nodes", "nodes / links differ from the table", key + "/graph"))
    else:
        for r in rows:
            got = tracks.get_position(r["id"])
            if not O.close(list(got), [r["y"], r["x"]], rel=0, abs_=0):
                probs.append(("pos", f"node {r['id']}: position {list(got)} != recorded "
                              f"{[r['y'], r['x']]} ({how}, "
                              f"{'legacy per-axis keys' if legacy else 'pos list'})",
                              key + "/pos"))
                break
    return probs, key


def plan(tier, seed):
    n = 1200 if tier == "quick" else 12000
    return [{"kind": "cases", "n": n // 16, "seed": common.seed_for(PROP, tier, seed, i)}
            for i in range(16)]


def run_shard(spec):
    rng = random.Random(spec["seed"])
    acc = common.new_acc()
    wd = env.workdir("c12")
    try:
        for i in range(spec["n"]):
            if i % 4 == 0:
                probs, k_ = judge_df_with_seg(rng)
                acc["evaluations"] += 1
                acc["counters"]["df-with-label-image"] = \
                    acc["counters"].get("df-with-label-image", 0) + 1
                acc["keys"].add(k_)
                for clause, what, key in probs[:1]:
                    acc["violations"].append({"clause": clause, "what": what, "key": key,
                                              "replay": {"kind": "df+seg", "note":
                                                         "re-run the shard seed"}})
            base = gen_table(rng)
            variants = [base]
            k = rng.choice(MALFORMS)
            variants.append(malform(base, rng, k))
            for case in variants:
                for src in ("df", "geff"):
                    if src == "df":
                        probs = judge_df(case, wd)
                    else:
                        if rng.random() < 0.5:
                            continue
                        probs = judge_geff(case, wd, rng)
                        if probs is None:
                            continue
                    acc["evaluations"] += 1
                    kind = "malformed" if case["malform"] else "wellformed"
                    acc["counters"][f"{src}-{kind}"] = acc["counters"].get(f"{src}-{kind}", 0) + 1
                    acc["keys"].add(f"{src}/{case['idkind']}/{case['rootenc']}/{case['nd']}D/"
                                    f"{case['mapkind']}/tid={case['tid_mode']}/"
                                    f"lid={case['lid_mode']}/{case['malform']}")
                    if not case["malform"]:
                        if src == "df" and case.get("gaps"):
                            acc["counters"]["df-wellformed-columns-with-empty-cells"] = \
                                acc["counters"].get(
                                    "df-wellformed-columns-with-empty-cells", 0) + 1
                        if src == "df" and case["index_kind"] != "default":
                            acc["counters"]["df-wellformed-nondefault-index"] = \
                                acc["counters"].get("df-wellformed-nondefault-index", 0) + 1
                        if src == "df" and case["load_area"]:
                            acc["counters"]["df-features-argument"] = \
                                acc["counters"].get("df-features-argument", 0) + 1
                        if case["zero_id"]:
                            acc["counters"]["wellformed-with-id-0"] = \
                                acc["counters"].get("wellformed-with-id-0", 0) + 1
                        if case["lid_mode"] == "valid" and case["has_div"]:
                            acc["counters"]["mapped-lineage-with-division"] = \
                                acc["counters"].get("mapped-lineage-with-division", 0) + 1
                    for clause, what, key in (probs or [])[:1]:
                        acc["violations"].append({
                            "clause": clause, "what": what, "key": key,
                            "replay": {"case": jsonable(case), "src": src}})
            if not acc["samples"] and len(base["rows"]) >= 3:
                acc["samples"].append({"columns": base["cols"], "node_name_map": base["nm"],
                                       "first_rows": jsonable(base)["rows"][:3],
                                       "roots": base["rootenc"]})
            if len(acc["violations"]) > 30:
                break
    finally:
        shutil.rmtree(wd, ignore_errors=True)
    return common.finish_acc(acc)


def jsonable(case):
    c = dict(case)
    if c.get("base_rows"):
        c["base_rows"] = jsonable({"rows": c["base_rows"]})["rows"]
    rows = []
    for r in case["rows"]:
        rows.append({k: (None if isinstance(v, float) and v != v else
                         v.item() if isinstance(v, np.generic) else v) for k, v in r.items()})
    c["rows"] = rows
    return c


def floors(tier):
    return {"df-wellformed": 800, "df-malformed": 800, "geff-wellformed": 150,
            "geff-malformed": 70, "wellformed-with-id-0": 100,
            "mapped-lineage-with-division": 50,
            "df-wellformed-nondefault-index": 200,
            "df-wellformed-columns-with-empty-cells": 100, "df-features-argument": 100,
            "df-with-label-image": 150}


def replay(doc):
    if doc.get("kind") == "df+seg":
        # the generator is tiny; replay = many fresh cases of the same route
        rng = random.Random(12345)
        for _ in range(300):
            probs, _k = judge_df_with_seg(rng)
            if probs:
                return [{"clause": c, "what": w, "key": k} for c, w, k in probs]
        return []
    case = doc["case"]
    case["rows"] = [{k: (np.nan if v is None else v) for k, v in r.items()}
                    for r in case["rows"]]
    if case.get("base_rows"):
        case["base_rows"] = [{k: (np.nan if v is None else v) for k, v in r.items()}
                             for r in case["base_rows"]]
    case["edges"] = [tuple(e) for e in case["edges"]]
    case["int_edges"] = [tuple(e) for e in case["int_edges"]]
    wd = env.workdir("c12r")
    try:
        if doc["src"] == "df":
            probs = judge_df(case, wd)
        else:
            probs = judge_geff(case, wd, random.Random(0))
    finally:
        shutil.rmtree(wd, ignore_errors=True)
    return [{"clause": c, "what": w, "key": k} for c, w, k in (probs or [])]
