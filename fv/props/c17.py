"""C17 - inferred column mappings lose no column and prefer exact names."""

from __future__ import annotations

import itertools
import random
import shutil
import warnings
from collections import Counter

from . import common

PROP = "C17"
LEVEL = "exploration"
EXHAUSTIVE = {"quick": True, "thorough": True}
RULE = (
    "icontract postconditions on the real infer_node_name_map / infer_edge_name_map: the "
    "multiset of columns appearing as values (single values and elements of list values) "
    "equals the multiset of source columns (every column exactly once, none twice, none "
    "invented), and every column spelled exactly like a required key or like 'seg_id' is mapped "
    "to that key. Workload: EXHAUSTIVE over all ordered selections of <= 4 (thorough: <= 5) "
    "distinct names from a 12-word confusable vocabulary x required sets {time} / "
    "{time,id,parent_id} x ndim 3/4/None, plus random lists of 0-12 names from a 60-word "
    "vocabulary (exact keys, case/affix/plural/typo variants, display names, value names, "
    "near-duplicates). Non-trivial = list with >= 2 columns; distinct = (sorted result keys "
    "shape: which standard keys were hit, number of custom columns)"
)
ASSUMPTIONS = ["column names are distinct strings (the property's quantifier)"]

VOCAB12 = ["time", "t", "id", "parent_id", "seg_id", "x", "y", "z", "area", "Area", "area_px",
           "pos"]
VOCAB = VOCAB12 + [
    "Time", "TIME", "frame", "ID", "parentid", "parent", "label", "segid", "seg", "X", "Y", "Z",
    "area_um", "volume", "Volume", "Circularity", "circularity", "circ", "perimeter",
    "Perimeter", "major_axis", "minor_axis", "semi_minor_axis", "Tracklet ID", "Lineage ID",
    "lineage_id", "tracklet_id", "track_id", "ellipse_axis_radii", "xx", "yy", "position",
    "pos_x", "pos_y", "score", "custom", "time_point", "iou", "IoU", "Sphericity",
    "Surface Area", "areas", "tim", "idd", "parent_idx", "seg_ids", "a", "b",
]
EDGE_VOCAB = ["iou", "IoU", "IOU", "overlap", "iou_1", "score", "weight", "io", "Iou", "u",
              "unique", "uniform", "uiu", "union", "ou", "i_o_u"]
REQUIRED = [["time"], ["time", "id", "parent_id"], ["time", "area"], ["time", "pos"],
            ["time", "id", "parent_id", "seg_id"], ["time", "track_id", "iou"]]


class PostBroken(Exception):
    pass


def flatten(result):
    out = []
    for v in result.values():
        if isinstance(v, list):
            out.extend(v)
        else:
            out.append(v)
    return out


STATS = {"evals": 0}


def every_column_once(importable_node_properties, result):
    STATS["evals"] += 1
    return Counter(flatten(result)) == Counter(importable_node_properties)


def exact_names_kept(importable_node_properties, required_features, result):
    for c in importable_node_properties:
        if c in set(required_features) | {"seg_id"} and result.get(c) != c:
            return False
    return True


def edge_every_column_once(importable_edge_properties, result):
    STATS["evals"] += 1
    return Counter(flatten(result)) == Counter(importable_edge_properties)


_wrapped = {}


def contracted():
    """The real functions with icontract postconditions attached (also rebound in the
    builder module so that TracksBuilder.prepare() goes through the contract)."""
    if _wrapped:
        return _wrapped["node"], _wrapped["edge"]
    import icontract

    import funtracks.import_export._name_mapping as nm
    import funtracks.import_export._tracks_builder as tb

    node = icontract.ensure(every_column_once, error=lambda importable_node_properties, result:
                            PostBroken(("every-column-once", importable_node_properties,
                                        result)))(
        icontract.ensure(exact_names_kept, error=lambda importable_node_properties,
                         required_features, result:
                         PostBroken(("exact-names", importable_node_properties, result)))(
            nm.infer_node_name_map))
    edge = icontract.ensure(edge_every_column_once, error=lambda importable_edge_properties,
                            result: PostBroken(("every-column-once",
                                                importable_edge_properties, result)))(
        nm.infer_edge_name_map)
    tb.infer_node_name_map = node
    tb.infer_edge_name_map = edge
    _wrapped["node"], _wrapped["edge"] = node, edge
    return node, edge


def features_for(ndim):
    from funtracks.import_export._utils import get_default_key_to_feature_mapping

    return get_default_key_to_feature_mapping(ndim, display_name=False)


def classify(cols, result, clause):
    """Mechanism key of a violation: which step lost / duplicated the column."""
    used = Counter(flatten(result))
    lost = [c for c in cols if used[c] == 0]
    dup = [c for c in cols if used[c] > 1]
    invented = [c for c in used if c not in cols]
    if clause == "exact-names":
        return "C17/exact-name-not-kept"
    kind = "lost" if lost else "duplicated" if dup else "invented"
    return f"C17/column-{kind}"


def run_case(kind, cols, required, ndim, acc):
    node, edge = contracted()
    feats = features_for(ndim)
    acc["evaluations"] += 1
    try:
        if kind == "node":
            res = node(list(cols), list(required), feats)
        else:
            res = edge(list(cols), feats)
    except PostBroken as e:
        clause, c, result = e.args[0]
        used = Counter(flatten(result))
        v = {
            "clause": clause,
            "key": classify(list(cols), result, clause),
            "what": f"{kind} columns {list(cols)} required {required} ndim {ndim} -> {result}; "
                    f"lost {[x for x in cols if used[x] == 0]}, twice "
                    f"{[x for x in cols if used[x] > 1]}",
            "replay": {"kind": kind, "cols": list(cols), "required": list(required),
                       "ndim": ndim},
        }
        acc["violations"].append(v)
        return None
    if len(cols) >= 2:
        std = sorted(k for k, v in res.items() if not (isinstance(v, str) and v == k))
        ncustom = sum(1 for k, v in res.items() if isinstance(v, str) and v == k)
        acc["keys"].add(f"{kind}/{std}/custom={ncustom}")
    return res


def run_builder_case(rng, acc):
    """One builder object prepares two different tables one after the other (an import
    dialog that is re-used): the map it holds after the second prepare() must obey the same
    laws with respect to the SECOND table's columns."""
    import pandas as pd

    from funtracks.import_export import CSVTracksBuilder

    contracted()
    b = CSVTracksBuilder()
    maps = []
    for _ in range(2):
        k = rng.randint(3, 9)
        cols = rng.sample(VOCAB, k)
        for need in ("id", "parent_id"):
            if need not in cols and rng.random() < 0.7:
                cols.append(need)
        df = pd.DataFrame({c: [1, 2] for c in cols})
        seg = None
        if rng.random() < 0.35:
            # the dialog already knows the label image (2-D+t or 3-D+t) when it prepares
            import numpy as np

            seg = np.zeros((2, 4, 4) if rng.random() < 0.6 else (2, 2, 4, 4), dtype=np.int32)
            seg[0].flat[0] = 1
            seg[1].flat[0] = 2
        try:
            with warnings.catch_warnings():
                warnings.simplefilter("ignore")
                if seg is None:
                    b.prepare(df)
                else:
                    b.prepare(df, seg)
        except PostBroken:
            return  # the contract clauses on the functions report that themselves
        except Exception:
            return
        maps.append((cols, dict(b.node_name_map)))
    cols, res = maps[-1]
    acc["evaluations"] += 1
    acc["counters"]["builder-reuse-cases"] = acc["counters"].get("builder-reuse-cases", 0) + 1
    used = Counter(flatten(res))
    ok = used == Counter(cols)
    exact = all(res.get(c) == c for c in cols
                if c in set(getattr(b, "required_features", [])) | {"seg_id"})
    if not ok or not exact:
        acc["violations"].append({
            "clause": "every-column-once" if not ok else "exact-names",
            "key": "C17/builder-reuse/" + ("stale-or-lost" if not ok else "exact-name-not-kept"),
            "what": f"builder prepared {maps[0][0]} and then {cols}; map after the second "
                    f"prepare: {res}; unused {[c for c in cols if used[c] == 0]}, foreign "
                    f"{[c for c in used if c not in cols]}",
            "replay": {"kind": "builder", "first": maps[0][0], "cols": cols, "required": [],
                       "ndim": None}})


def run_csv_file_case(rng, acc, wd):
    """A CSV file on disk whose header has blanks after the commas: the columns are what
    pandas reads from the file, and prepare(Path) must map exactly those."""
    import pandas as pd

    from funtracks.import_export import CSVTracksBuilder

    contracted()
    cols = ["t", "y", "x", "id", "parent_id"] + rng.sample(["area", "score", "note", "Volume"],
                                                            rng.randint(0, 2))
    sep = rng.choice([",", ", ", ",  "])
    path = wd / "padded.csv"
    with open(path, "w") as fh:
        fh.write(sep.join(cols) + "\n")
        fh.write(",".join("1" for _ in cols) + "\n")
        fh.write(",".join("2" for _ in cols) + "\n")
    real = list(pd.read_csv(path).columns)
    b = CSVTracksBuilder()
    try:
        with warnings.catch_warnings():
            warnings.simplefilter("ignore")
            b.prepare(path)
    except PostBroken:
        return
    except Exception:
        return
    acc["evaluations"] += 1
    acc["counters"]["csv-file-cases"] = acc["counters"].get("csv-file-cases", 0) + 1
    used = Counter(flatten(dict(b.node_name_map)))
    if used != Counter(real):
        acc["violations"].append({
            "clause": "every-column-once", "key": "C17/csv-file/columns",
            "what": f"file header {sep.join(cols)!r}: columns read by pandas {real}; map "
                    f"{dict(b.node_name_map)}",
            "replay": {"kind": "csv-file", "cols": cols, "required": [], "ndim": None}})


def run_geff_builder_case(rng, acc, wd):
    """A GEFF store whose edges carry properties, some spelled like node properties or like
    display names: GeffTracksBuilder.prepare() must use every node property and every edge
    property exactly once in its two maps."""
    import geff
    import networkx as nx

    from funtracks.import_export import GeffTracksBuilder

    contracted()
    ncols = [c for c in rng.sample(VOCAB, rng.randint(2, 6)) if c not in ("t", "y", "x")]
    ecols = rng.sample(EDGE_VOCAB, rng.randint(1, 4))
    if ncols and rng.random() < 0.5:
        ecols.append(rng.choice(ncols))  # same name on nodes and on edges
    ecols = list(dict.fromkeys(ecols))
    g = nx.DiGraph()
    for i in range(1, 4):
        g.add_node(i, t=i - 1, y=float(i), x=float(i), **{c: float(i) for c in ncols})
    g.add_edge(1, 2, **{c: 0.5 for c in ecols})
    g.add_edge(2, 3, **{c: 0.25 for c in ecols})
    d = wd / "b.zarr"
    if d.exists():
        shutil.rmtree(d)
    try:
        with warnings.catch_warnings():
            warnings.simplefilter("ignore")
            geff.write(g, d, axis_names=["t", "y", "x"], axis_types=["time", "space", "space"])
            b = GeffTracksBuilder()
            b.prepare(d)
    except PostBroken:
        return
    except Exception:
        acc["counters"]["geff-builder-not-prepared"] = \
            acc["counters"].get("geff-builder-not-prepared", 0) + 1
        return
    acc["evaluations"] += 1
    acc["counters"]["geff-builder-cases"] = acc["counters"].get("geff-builder-cases", 0) + 1
    allnode = ["t", "y", "x"] + ncols
    for kind, cols, res in (("node", allnode, dict(b.node_name_map or {})),
                            ("edge", ecols, dict(b.edge_name_map or {}))):
        used = Counter(flatten(res))
        if used != Counter(cols):
            acc["violations"].append({
                "clause": "every-column-once",
                "key": f"C17/geff-builder/{kind}/" + ("lost" if any(used[c] == 0 for c in cols)
                                                      else "duplicated-or-foreign"),
                "what": f"GEFF store with node properties {allnode} and edge properties "
                        f"{ecols}: {kind} map {res}; unused "
                        f"{[c for c in cols if used[c] == 0]}",
                "replay": {"kind": "geff-builder", "ncols": ncols, "ecols": ecols,
                           "cols": cols, "required": [], "ndim": None}})
            return


def plan(tier, seed):
    maxlen = 4 if tier == "quick" else 5
    specs = []
    nsh = 12 if tier == "quick" else 28
    for part in range(nsh):
        specs.append({"kind": "exhaustive", "maxlen": maxlen, "part": part, "parts": nsh})
    for i in range(4):
        specs.append({"kind": "random", "n": 6000 if tier == "quick" else 60000,
                      "seed": common.seed_for(PROP, tier, seed, i)})
    # + the repository's import/export tests, unedited, with the same contracts attached
    specs.insert(0, common.pytest_spec())  # first, so that it runs alongside the others
    return specs


def run_shard(spec):
    if spec["kind"] == "pytest":
        return common.run_pytest_shard(spec, PROP, tests=["tests/import_export"])
    acc = common.new_acc()
    STATS["evals"] = 0
    if spec["kind"] == "exhaustive":
        idx = 0
        n = 0
        for L in range(0, spec["maxlen"] + 1):
            for cols in itertools.permutations(VOCAB12, L):
                idx += 1
                if idx % spec["parts"] != spec["part"]:
                    continue
                req = REQUIRED[idx % len(REQUIRED)]
                ndim = [3, 4, None][idx % 3]
                run_case("node", cols, req, ndim, acc)
                n += 1
                if len(acc["violations"]) > 40:
                    break
        acc["counters"]["exhaustive-lists"] = n
        acc["extra"]["exhaustive_space"] = (
            f"all ordered selections of <= {spec['maxlen']} names from {VOCAB12}")
    else:
        from .. import env

        wd = env.workdir("c17")
        rng = random.Random(spec["seed"])
        for i in range(spec["n"]):
            if i % 20 == 0:
                run_builder_case(rng, acc)
            if i % 40 == 10:
                run_geff_builder_case(rng, acc, wd)
            if i % 60 == 30:
                run_csv_file_case(rng, acc, wd)
            if rng.random() < 0.8:
                k = rng.randint(0, 12)
                cols = rng.sample(VOCAB, k)
                run_case("node", cols, rng.choice(REQUIRED), rng.choice([3, 4, None]), acc)
                acc["counters"]["random-node-lists"] = \
                    acc["counters"].get("random-node-lists", 0) + 1
            else:
                k = rng.randint(0, 5)
                cols = rng.sample(EDGE_VOCAB, k)
                run_case("edge", cols, [], rng.choice([3, 4]), acc)
                acc["counters"]["random-edge-lists"] = \
                    acc["counters"].get("random-edge-lists", 0) + 1
            if len(acc["violations"]) > 40:
                break
    if spec["kind"] != "exhaustive":
        shutil.rmtree(wd, ignore_errors=True)
    acc["counters"]["contract-evaluations"] = STATS["evals"]
    # keep one violation per mechanism key and input size (smallest witnesses first)
    acc["violations"].sort(key=lambda v: len(v["replay"]["cols"]))
    seen = set()
    keep = []
    for v in acc["violations"]:
        if v["key"] not in seen:
            seen.add(v["key"])
            keep.append(v)
    acc["violations"] = keep
    if not acc["samples"]:
        acc["samples"].append({"columns": ["t", "y", "x", "id", "parent_id", "area_px"],
                               "note": "one of the generated lists"})
    return common.finish_acc(acc)


def floors(tier):
    return {"exhaustive-lists": 13000 if tier == "quick" else 100000,
            "random-node-lists": 10000, "random-edge-lists": 2000,
            "contract-evaluations": 20000, "builder-reuse-cases": 500, "geff-builder-cases": 200, "csv-file-cases": 100}


def replay(doc):
    if doc.get("kind") == "pytest":
        return common.replay_pytest(doc, PROP)
    if doc.get("kind") == "builder":
        import pandas as pd

        from funtracks.import_export import CSVTracksBuilder

        contracted()
        b = CSVTracksBuilder()
        for cols in (doc["first"], doc["cols"]):
            b.prepare(pd.DataFrame({c: [1, 2] for c in cols}))
        used = Counter(flatten(dict(b.node_name_map)))
        if used != Counter(doc["cols"]):
            return [{"clause": "every-column-once", "key": "C17/builder-reuse/stale-or-lost",
                     "what": f"map after second prepare {dict(b.node_name_map)}"}]
        return []
    acc = common.new_acc()
    run_case(doc["kind"], doc["cols"], doc["required"], doc["ndim"], acc)
    return acc["violations"]
