"""C11 - a refused edit changes nothing."""

from __future__ import annotations

from .. import gen
from ..monitors import AtomicityMonitor
from ..ops import OpGen
from . import common

PROP = "C11"
LEVEL = "exploration"
RULE = (
    "random sessions with a high share of deliberately refusable calls (missing/invalid "
    "arguments, structural conflicts without force, unknown nodes/edges, protected attributes, "
    "forced calls whose later step fails, multi-label strokes whose last step is refused); for "
    "every top-level user action that raises, the deep state (graph incl. unregistered "
    "attributes, all values, segmentation after the caller restored the painted pixels, both "
    "lookup tables, registry, scale, identities of both history stacks) is compared before/after "
    "and the refresh emissions in the call window are counted. Non-trivial distinct = (class, "
    "exception type, raise site file:line, number of sub-edits already applied)"
)
ASSUMPTIONS = ["any exception from the constructor of a user action counts as a refusal",
               "for UserUpdateSegmentation the driver restores exactly the pixels it painted"]


def make_monitors():
    return [AtomicityMonitor()]


def cfg_fn(rng):
    return gen.random_config(rng, p3d=0.15, ellipse3d=True)


WEIGHTS = {"features": 1.5, "ctrl": 0.8, "add_node": 6, "add_edge": 6, "paint": 6, "swap": 2.5, "update_attrs": 2,
           "undo": 1, "redo": 0.7}


class _Gen(OpGen):
    toggle_lineage = True  # the lineage feature is also switched off / on alone


def plan(tier, seed):
    # + the repository's own test-suite, unedited, as one more workload under the same monitor
    # + the recorded finding's history (known_findings.json), re-observed on every run
    return [common.pytest_spec(), {"kind": "finding-probe", "seed": 0}] + \
        common.session_plan(PROP, tier, seed, quick=7200, thorough=80000)


def run_shard(spec):
    if spec.get("kind") == "pytest":
        return common.run_pytest_shard(spec, PROP)
    if spec.get("kind") == "finding-probe":
        return finding_probe()
    return common.run_sessions(spec, PROP, make_monitors, cfg_fn, nsteps=(15, 35),
                               weights=WEIGHTS, refusal_rate=2.5, history_share=0.25, opgen=_Gen)


def finding_probe():
    """Replays the committed history of the recorded finding under the same monitor, so
    that the KNOWN-FINDING line is backed by an observation of this run (and disappears by
    itself once the library no longer shows it)."""
    import json

    from .. import env

    acc = common.new_acc()
    doc = json.load(open(env.VERIF / "findings" / "C11-stale-lineage-rollback.replay.json"))
    vs = common.replay_sessions(doc, make_monitors)
    acc["evaluations"] += 1
    acc["counters"]["finding-probe-runs"] = 1
    for v in vs[:1]:
        v = dict(v)
        v["replay"] = doc
        acc["violations"].append(v)
        acc["counters"]["finding-probe-observed"] = 1
    return common.finish_acc(acc)


def floors(tier):
    return {"sessions": 300, "refusals": 1500, "refused-UserAddNode": 100,
            "refused-UserAddEdge": 200, "refused-UserUpdateSegmentation": 30,
            "refused-UserSwapPredecessors": 50, "refused-UserDeleteEdge": 30,
            "refused-UserDeleteNode": 30, "refused-UserUpdateNodeAttrs": 30}


def replay(doc):
    if doc.get("kind") == "pytest":
        return common.replay_pytest(doc, PROP)
    return common.replay_sessions(doc, make_monitors)
