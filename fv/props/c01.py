"""C01 - every edit is exactly invertible."""

from __future__ import annotations

from .. import gen
from ..monitors import InverseMonitor
from . import common

PROP = "C01"
LEVEL = "exploration"
RULE = (
    "random editing sessions over all configurations (2D/3D, with/without segmentation, scale "
    "None/ones/anisotropic, single-key/per-axis position, three construction routes, optional "
    "features, registered custom node/edge features); after every accepted edit the monitor "
    "inverts it (alternating action.inverse() and tracks.undo()), compares the canonical state "
    "(every registered node/edge feature, bit-exact segmentation) with the pre-state, inverts "
    "again and compares with the post-state; primitives are applied directly under their "
    "preconditions and inverted; at session end everything is undone / redone. Non-trivial = "
    "accepted edit that changed the state; distinct by (action class, primitive signature, role "
    "of the named nodes, force, configuration)"
)
ASSUMPTIONS = [
    "documented preconditions honoured by the generators (primitive AddNode paints onto "
    "background, primitive DeleteNode has no incident edges, primitive UpdateTrackIDs uses a "
    "fresh id, strokes within one frame)",
    "unregistered ad-hoc attributes and fresh-id counters are not part of the compared state",
    "3-D ellipse_axis_radii excluded (library raises on flat masks)",
]


def make_monitors():
    return [InverseMonitor()]


def cfg_fn(rng):
    return gen.random_config(rng, p3d=0.2)


WEIGHTS = {"scenario": 0.5, "undo": 1.5, "redo": 1.0, "update_attrs": 1.5}


def plan(tier, seed):
    return common.session_plan(PROP, tier, seed, quick=7200, thorough=80000)


def run_shard(spec):
    return common.run_sessions(spec, PROP, make_monitors, cfg_fn, nsteps=(12, 30),
                               weights=WEIGHTS, refusal_rate=0.5)


def floors(tier):
    f = {"sessions": 250}
    for c in ("UserAddNode", "UserAddEdge", "UserDeleteEdge", "UserDeleteNode",
              "UserSwapPredecessors", "UserUpdateSegmentation", "UserUpdateNodeAttrs"):
        f[f"inverted-{c}"] = 20
    for b in ("branch-forced-add-edge", "branch-forced-add-node", "branch-sibling-relabel",
              "branch-skip-reconnect", "branch-paint-deletes-node", "branch-paint-creates-node",
              "branch-join-or-division"):
        f[b] = 5
    for p in ("AddNode", "DeleteNode", "AddEdge", "DeleteEdge", "UpdateNodeAttrs",
              "UpdateNodeSeg", "UpdateTrackIDs"):
        f[f"primitive-{p}"] = 5
    return f


def replay(doc):
    return common.replay_sessions(doc, make_monitors)
