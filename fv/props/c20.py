"""C20 - exactly one refresh per successful change."""

from __future__ import annotations

from .. import gen, ops as _ops
from ..monitors import RefreshMonitor
from . import common

PROP = "C20"
LEVEL = "exploration"
RULE = (
    "random sessions (all user actions incl. composite ones that nest user actions, forced "
    "variants, refused calls, undo/redo at both ends of the history); a recorder slot connected "
    "to tracks.refresh logs every emission with the nesting depth of wrapped constructors; "
    "offline per call window: success => exactly one emission, at depth 1, after the last "
    "primitive application, payload = new node for UserAddNode / node-creating paint, else "
    "None; raise => none; undo/redo True => one, False => none. Distinct = (class, outcome, "
    "nesting depth reached, primitive signature)"
)
ASSUMPTIONS = ["a paint stroke that changes no pixel makes no call and is not a window"]


def make_monitors():
    return [RefreshMonitor()]


def cfg_fn(rng):
    return gen.random_config(rng, p3d=0.1, extras=False)


WEIGHTS = {"ctrl": 0.8, "undo": 3, "redo": 3, "paint": 5, "swap": 2.5}


def plan(tier, seed):
    # + the repository's own test-suite, unedited, as one more workload under the same monitor
    return [common.pytest_spec(),
            {"kind": "reentrant", "n": 60 if tier == "quick" else 600,
             "seed": common.seed_for(PROP, tier, seed, "reentrant")}] + \
        common.session_plan(PROP, tier, seed, quick=6000, thorough=60000)


def run_shard(spec):
    if spec.get("kind") == "pytest":
        return common.run_pytest_shard(spec, PROP)
    if spec.get("kind") == "reentrant":
        import random

        acc = common.new_acc()
        reentrant_listener_cases(random.Random(spec["seed"]), acc, spec["n"])
        return common.finish_acc(acc)
    return common.run_sessions(spec, PROP, make_monitors, cfg_fn, nsteps=(15, 35),
                               weights=WEIGHTS, refusal_rate=1.5, history_share=0.25)


def reentrant_listener_cases(rng, acc, n):
    """Two listeners on tracks.refresh: the first one reacts to a new node by tagging it
    (another top-level user action, from inside its callback), the second one only counts.
    The second listener must hear of every successful top-level action, the nested one
    included."""
    import random as _r
    import warnings

    from funtracks.user_actions import UserAddNode, UserUpdateNodeAttrs

    for _ in range(n):
        cfg = gen.random_config(rng, seg=False, extras=False)
        cfg.seed = rng.randrange(1 << 30)
        tracks, _f, _g = gen.build_tracks(cfg)
        try:
            tracks.refresh.disconnect()
        except Exception:
            pass
        heard = []

        def tagger(node=None, tracks=tracks):
            if node is not None and node in tracks.graph and \
                    tracks.graph.nodes[node].get("note") != "new":
                UserUpdateNodeAttrs(tracks, node, {"note": "new"})

        def counter(*a):
            heard.append(a[0] if a else None)

        tracks.refresh.connect(tagger)
        tracks.refresh.connect(counter)
        expected = 0
        og = _ops.OpGen(cfg, _r.Random(cfg.seed), refusal_rate=0.0)
        with warnings.catch_warnings():
            warnings.simplefilter("ignore")
            for _k in range(rng.randint(2, 5)):
                op = og.gen_add_node(tracks)
                if op is None or "omit" in op:
                    continue
                attrs = {tracks.features.time_key: op["time"],
                         tracks.features.tracklet_key: op["track_id"]}
                pk = tracks.features.position_key
                if isinstance(pk, list):
                    attrs.update(dict(zip(pk, op["pos"])))
                else:
                    attrs[pk] = list(op["pos"])
                try:
                    UserAddNode(tracks, op["node"], attrs, force=True)
                    expected += 2  # the add and the tagger's attribute update
                except Exception:
                    pass
        acc["evaluations"] += 1
        acc["counters"]["reentrant-listener-cases"] = \
            acc["counters"].get("reentrant-listener-cases", 0) + 1
        if len(heard) != expected:
            acc["violations"].append({
                "clause": "emission-count",
                "what": f"a later listener heard {len(heard)} refreshes {heard} for {expected} "
                        "successful top-level actions (an earlier listener edits the tracks "
                        "from inside its callback)",
                "key": "C20/count/later-listener/reentrant-earlier-listener",
                "replay": {"kind": "reentrant", "note": "re-run with a fresh generator"}})
            return


def floors(tier):
    f = {"sessions": 250, "windows-with-nesting": 100, "done-undo": 100, "done-redo": 100,
         "nothing-to-do-undo": 20, "nothing-to-do-redo": 20}
    for c in ("UserAddNode", "UserAddEdge", "UserDeleteEdge", "UserDeleteNode",
              "UserSwapPredecessors", "UserUpdateSegmentation", "UserUpdateNodeAttrs"):
        f[f"ok-{c}"] = 30
        f[f"refused-{c}"] = 10
    f["reentrant-listener-cases"] = 30
    return f


def replay(doc):
    if doc.get("kind") == "pytest":
        return common.replay_pytest(doc, PROP)
    if doc.get("kind") == "reentrant":
        import random

        acc = common.new_acc()
        reentrant_listener_cases(random.Random(7), acc, 200)
        return acc["violations"]
    return common.replay_sessions(doc, make_monitors)
