"""C20 - exactly one refresh per successful change."""

from __future__ import annotations

from .. import gen
from ..monitors import RefreshMonitor
from . import common

PROP = "C20"
LEVEL = "exploration"
RULE = (
    "random sessions (all user actions incl. composite ones that nest user actions, forced "
    "variants, refused calls, undo/redo at both ends of the history); a recorder slot connected "
    "to tracks.refresh logs every emission with the nesting depth of wrapped constructors; "
    "offline per call window: success => exactly one emission, at depth 1, after the last "
    "primitive application, payload = new node for UserAddNode / node-creating paint, else "
    "None; raise => none; undo/redo True => one, False => none. Distinct = (class, outcome, "
    "nesting depth reached, primitive signature)"
)
ASSUMPTIONS = ["a paint stroke that changes no pixel makes no call and is not a window"]


def make_monitors():
    return [RefreshMonitor()]


def cfg_fn(rng):
    return gen.random_config(rng, p3d=0.1, extras=False)


WEIGHTS = {"ctrl": 0.8, "undo": 3, "redo": 3, "paint": 5, "swap": 2.5}


def plan(tier, seed):
    # + the repository's own test-suite, unedited, as one more workload under the same monitor
    return [common.pytest_spec()] + common.session_plan(PROP, tier, seed, quick=6000, thorough=60000)


def run_shard(spec):
    if spec.get("kind") == "pytest":
        return common.run_pytest_shard(spec, PROP)
    return common.run_sessions(spec, PROP, make_monitors, cfg_fn, nsteps=(15, 35),
                               weights=WEIGHTS, refusal_rate=1.5, history_share=0.25)


def floors(tier):
    f = {"sessions": 250, "windows-with-nesting": 100, "done-undo": 100, "done-redo": 100,
         "nothing-to-do-undo": 20, "nothing-to-do-redo": 20}
    for c in ("UserAddNode", "UserAddEdge", "UserDeleteEdge", "UserDeleteNode",
              "UserSwapPredecessors", "UserUpdateSegmentation", "UserUpdateNodeAttrs"):
        f[f"ok-{c}"] = 30
        f[f"refused-{c}"] = 10
    return f


def replay(doc):
    if doc.get("kind") == "pytest":
        return common.replay_pytest(doc, PROP)
    return common.replay_sessions(doc, make_monitors)
