"""C10 - feature switching is history-independent; managed features are protected."""

from __future__ import annotations

from .. import gen, session
from ..monitors import FeatureSwitchMonitor
from ..ops import OpGen
from . import common

PROP = "C10"
LEVEL = "exploration"
RULE = (
    "random sessions mixing enable_features / disable_features (random subsets of the available "
    "keys incl. repeats, already-enabled / already-disabled keys, recompute on/off, unknown keys "
    "mixed in) with edits, undo and redo, on tracks with/without segmentation built with or "
    "without a pre-built FeatureDict. Reference model = set of enabled keys: after every op the "
    "registry must equal static + enabled and the annotators' active set must equal enabled; "
    "after enable-with-recompute the values of the keys equal the C04/C05/C08/C09 references; "
    "values of a disabled key on elements that exist continuously never change; an unknown key "
    "raises KeyError with the deep state unchanged; UserUpdateNodeAttrs on the time key or any "
    "annotator-manageable key (enabled or not) raises ValueError, a custom key is accepted. "
    "Distinct = (enable set, disable set, recompute) switches + protected-key situations"
)
ASSUMPTIONS = ["track_id is toggled only in edit-free windows (disable, check, re-enable with "
               "recomputation), since edits need it; lineage_id is also switched off alone "
               "for windows of 2-6 edits (the annotator supports that), its stored values must "
               "then stay untouched",
               "3-D ellipse_axis_radii runs on masks containing a 2x2x2 cube; a feature op or "
               "edit that the library refuses with 'math domain error' is not judged"]


def make_monitors():
    return [FeatureSwitchMonitor()]


class SwitchOpGen(OpGen):
    scenarios = ("stale",)

    def gen_features(self, tracks):
        rng = self.rng
        tk, lk = tracks.features.tracklet_key, tracks.features.lineage_key
        free = self.toggleable(tracks)
        r = rng.random()
        if r < 0.10:
            # edit-free window for the id features
            ks = rng.choice([[tk], [lk], [tk, lk]])
            self.queue = [lambda tr: {"op": "features", "enable": ks, "recompute": True}]
            return {"op": "features", "disable": ks}
        if r < 0.18:
            # the lineage feature alone is switched off while edits go on (the annotator
            # supports this: only the tracklet feature gates its updates); its stored values
            # must then stay as they are, whatever joins / splits lineages
            def edit(tr):
                for _ in range(20):
                    kind = rng.choice(["add_edge", "add_edge", "delete_edge", "delete_edge",
                                       "delete_node", "add_node", "undo", "redo", "swap"])
                    op = getattr(self, "gen_" + kind)(tr)
                    if op is not None:
                        return op
                return {"op": "undo"}

            self.queue = [edit] * rng.randint(2, 6) + [
                lambda tr: {"op": "features", "enable": [lk], "recompute": True}]
            # often together with keys of OTHER annotators in the same request
            mixed = [lk] + (rng.sample(free, rng.randint(1, min(2, len(free))))
                            if free and rng.random() < 0.6 else [])
            rng.shuffle(mixed)
            return {"op": "features", "disable": mixed}
        if not free:
            return {"op": "features", "enable": ["no_such_feature"]}
        ks = rng.sample(free, rng.randint(1, min(3, len(free))))
        if rng.random() < 0.15:
            ks = ks + [ks[0]]  # repeated key
        if self.bad(0.08):
            ks = ks + [rng.choice(["no_such_feature", "Area", "IOU", ""])]
            rng.shuffle(ks)
        if rng.random() < 0.55:
            return {"op": "features", "enable": ks, "recompute": rng.random() < 0.8}
        return {"op": "features", "disable": ks}


WEIGHTS = {"features": 7, "update_attrs": 3, "paint": 5, "scenario": 0.7, "prim_seg": 1.2, "ctrl": 1.2}


def cfg_fn(rng):
    cfg = gen.random_config(rng, p3d=0.15, ellipse3d=True)
    cfg.custom = False
    cfg.custom_annotator = rng.random() < 0.2
    return cfg


def plan(tier, seed):
    return common.session_plan(PROP, tier, seed, quick=4000, thorough=50000)


def run_shard(spec):
    return common.run_sessions(spec, PROP, make_monitors, cfg_fn, nsteps=(15, 35),
                               weights=WEIGHTS, refusal_rate=1.0, opgen=SwitchOpGen)


def floors(tier):
    return {"sessions": 200, "feature-ops": 1000, "unknown-key-ops": 30, "enable-recompute": 300,
            "enable-no-recompute": 50, "disable": 300, "protected-attr-offers": 100,
            "custom-attr-offers": 100, "frozen-comparisons": 2000}


def replay(doc):
    return common.replay_sessions(doc, make_monitors)
