"""C07 - segmentation labels and nodes stay in one-to-one correspondence."""

from __future__ import annotations

from .. import gen
from ..monitors import SegMonitor
from . import common

PROP = "C07"
LEVEL = "exploration"
RULE = (
    "random sessions on tracks with segmentation (2D+t and 3D+t) interleaving node/edge edits, "
    "undo/redo and paint/erase strokes driven like a label layer (paint first, then "
    "UserUpdateSegmentation with the changed pixels grouped by previous label); after every "
    "call: per frame the non-zero labels equal the nodes of that frame, get_pixels equals a "
    "scan; after every accepted stroke the array equals the painted array bit for bit, undo "
    "restores the pre-stroke array, redo the painted one. Distinct = stroke classes (label kind "
    "x what is overwritten x dimensionality)"
)
ASSUMPTIONS = ["a stroke lies within one frame and its label is 0, a node of that frame or "
               "unused; pixels of directly added nodes lie on background in the node's frame"]


def make_monitors():
    return [SegMonitor()]


def cfg_fn(rng):
    cfg = gen.random_config(rng, seg=True, p3d=0.3, extras=True)
    return cfg


WEIGHTS = {"ctrl": 0.8, "paint": 9, "update_attrs": 0.2, "swap": 0.7}


def plan(tier, seed):
    return common.session_plan(PROP, tier, seed, quick=4800, thorough=50000)


def run_shard(spec):
    return common.run_sessions(spec, PROP, make_monitors, cfg_fn, nsteps=(15, 35),
                               weights=WEIGHTS, refusal_rate=0.4, history_share=0.25)


def floors(tier):
    f = {"sessions": 200}
    for c in ("stroke-new", "stroke-existing", "stroke-background", "stroke-over-none",
              "stroke-over-part-of-one", "stroke-over-all-of-one", "stroke-over-parts-of-several"):
        f[c] = 20
    f["stroke-over-all-of-several"] = 5
    return f


def replay(doc):
    return common.replay_sessions(doc, make_monitors)
