"""C18 - candidate graph = all detections plus all near pairs in consecutive frames."""

from __future__ import annotations

import random
import warnings

import numpy as np

from .. import oracles as O
from . import common

PROP = "C18"
LEVEL = "exploration"
RULE = (
    "random label arrays (2-D+t and 3-D+t) and point lists with 0-5 detections per frame, empty "
    "frames at the start / middle / end and runs of empty frames, spatial scales from "
    "{0.5,1,2}, max_edge_distance random or exactly on a pair distance (integer geometry, where "
    "d^2 and r^2 are exact); the real compute_graph_from_seg / compute_graph_from_points_list "
    "are compared with a brute-force oracle: node set = detections with time, scaled centroid "
    "and area; (a,b) is an edge iff time(b)=time(a)+1 and |pos a - pos b| <= r (pairs within "
    "1e-9 relative of r are don't-care unless the arithmetic is exact); iou attributes = numpy "
    "overlap. Non-trivial = at least two non-empty frames; distinct = (source kind, ndim, gap "
    "pattern of empty/non-empty frames, radius class)"
)
ASSUMPTIONS = ["time scale 1", "labels unique across frames (documented precondition of "
               "nodes_from_segmentation)"]


def gen_case(rng: random.Random):
    kind = rng.choice(["seg", "seg", "points"])
    nd = rng.choice([2, 2, 3])
    T = rng.randint(1, 7)
    shape = (14, 14) if nd == 2 else (6, 8, 8)
    dense = kind == "seg" and rng.random() < 0.3
    if dense:  # small frames: several cells of one frame overlap the same cell of the next
        shape = (6, 6) if nd == 2 else (3, 5, 5)
    pattern = []
    for t in range(T):
        r = rng.random()
        pattern.append(0 if r < 0.3 else rng.randint(1, 5))
    if rng.random() < 0.04:
        pattern = [0] * T
    scale = [1.0] + [rng.choice([0.5, 1.0, 1.0, 2.0]) for _ in range(nd)]
    if rng.random() < 0.4:
        scale = None
    exact = rng.random() < 0.5
    case = {"kind": kind, "nd": nd, "T": T, "shape": shape, "scale": scale, "iou": False,
            "exact": exact}
    case["far"] = kind == "points" and rng.random() < 0.15
    dets = []  # (t, cells) or (t, point)
    label = 1
    # label dtype and value range: narrow unsigned types with values up to their maximum
    dtype = rng.choice(["int32", "int32", "int64", "uint16", "uint8", "uint32"])
    top = {"uint8": 255, "uint16": rng.choice([1500, 65535]), "int32": 2000, "uint32": 70000,
           "int64": 2000}[dtype]
    if sum(pattern) > top:
        dtype, top = "int32", 2000
    labels = rng.sample(range(1, top + 1), sum(pattern)) if sum(pattern) else []
    case["dtype"] = dtype
    li = 0
    for t, c in enumerate(pattern):
        occ = np.zeros(shape, bool)
        for _ in range(c):
            if kind == "points":
                p = [rng.randrange(s) for s in shape] if exact else \
                    [round(rng.uniform(0, s), 2) for s in shape]
                if case.get("far"):
                    # world coordinates far from the origin (e.g. nanometres): exactly
                    # representable in double precision, not in single precision
                    p = [x + 40_000_000.0 for x in p]
                dets.append({"t": t, "p": p})
            else:
                # exact: single pixel or 3^n box fully inside (integer centroid)
                for _try in range(30):
                    if exact:
                        c0 = [rng.randrange(1, s - 1) for s in shape]
                        half = rng.choice([0, 1])
                        sl = tuple(slice(x - half, x + half + 1) for x in c0)
                    else:
                        c0 = [rng.randrange(0, s - 1) for s in shape]
                        ext = [rng.choice([1, 2, 3]) for _ in shape]
                        sl = tuple(slice(x, min(x + e, s)) for x, e, s in zip(c0, ext, shape))
                    if not occ[sl].any():
                        occ[sl] = True
                        dets.append({"t": t, "sl": [[s.start, s.stop] for s in sl],
                                     "label": labels[li]})
                        li += 1
                        break
    if kind == "seg" and dtype in ("uint8", "uint16") and nd == 2 and rng.random() < 0.3 \
            and len(dets) >= 1 and not dense:
        # one big cell (more pixels than the dtype can count) overlapping its neighbours in time
        case["shape"] = shape = (20, 20)
        t_big = dets[0]["t"]
        dets = [d for d in dets if d["t"] != t_big][:6]
        for d in dets:
            d["sl"] = [[min(a, 19), min(max(b, a + 1), 20)] for a, b in d["sl"]]
        dets.append({"t": t_big, "sl": [[1, 18], [1, 18]], "label": labels[0] if labels else 1})
        seen_l = set()
        dets = [d for d in dets if not (d["label"] in seen_l or seen_l.add(d["label"]))]
        case["iou"] = True
        case["exact"] = False
    if kind == "points" and len(dets) >= 2 and rng.random() < 0.4:
        # a point list that is not sorted by time (listed track by track, or as detected):
        # node i is still ROW i of the list
        rng.shuffle(dets)
        case["unsorted"] = True
    case["dets"] = dets
    case["int_points"] = kind == "points" and exact and rng.random() < 0.5
    case["iou"] = kind == "seg" and rng.random() < 0.5
    # radius
    case["r"] = round(rng.uniform(0.5, 9.0), 3)
    case["rclass"] = "random"
    return case


def positions(case):
    sc = case["scale"] or [1.0] * (case["nd"] + 1)
    out = []
    for d in case["dets"]:
        if "p" in d:
            out.append([x * s for x, s in zip(d["p"], sc[1:])])
        else:
            out.append([((a + b - 1) / 2.0) * s for (a, b), s in zip(d["sl"], sc[1:])])
    return out


def pick_exact_radius(case, rng):
    """Radius exactly on a pair distance between consecutive frames (if any)."""
    pos = positions(case)
    ds = []
    for i, a in enumerate(case["dets"]):
        for j, b in enumerate(case["dets"]):
            if b["t"] == a["t"] + 1:
                d2 = sum((x - y) ** 2 for x, y in zip(pos[i], pos[j]))
                r = d2 ** 0.5
                if r > 0 and r * r == d2:  # exactly representable
                    ds.append(r)
    if ds:
        case["r"] = rng.choice(ds)
        case["rclass"] = "on-a-pair-distance"


def build_inputs(case):
    if case["kind"] == "points":
        pts = np.array([[d["t"], *d["p"]] for d in case["dets"]], dtype=float)
        if len(case["dets"]) == 0:
            pts = np.zeros((0, case["nd"] + 1))
        if case["exact"] and case.get("int_points"):
            pts = pts.astype(np.int64)  # integer coordinates in an integer array
        return pts
    seg = np.zeros((case["T"], *case["shape"]), dtype=np.dtype(case.get("dtype", "int32")))
    for d in case["dets"]:
        sl = tuple(slice(a, b) for a, b in d["sl"])
        seg[d["t"]][sl] = d["label"]
    return seg


def judge(case):
    from funtracks.candidate_graph import (
        compute_graph_from_points_list,
        compute_graph_from_seg,
    )

    data = build_inputs(case)
    sc = case["scale"]
    r = case["r"]
    out = []
    with warnings.catch_warnings():
        warnings.simplefilter("ignore")
        try:
            if case["kind"] == "points":
                g = compute_graph_from_points_list(data, r, scale=sc)
            else:
                g = compute_graph_from_seg(data, r, iou=case["iou"], scale=sc)
        except Exception as e:
            npat = "all-empty" if not case["dets"] else "non-empty"
            return [("raised", f"{type(e).__name__}: {e}", f"C18/raised/{npat}/"
                     f"{type(e).__name__}")], 0
    pos = positions(case)
    ids = list(range(len(case["dets"]))) if case["kind"] == "points" else \
        [d["label"] for d in case["dets"]]
    ncmp = 0
    # nodes
    if set(g.nodes) != set(ids):
        out.append(("nodes", f"node set {sorted(g.nodes)} != detections {sorted(ids)}",
                    "C18/nodes/set"))
        return out, ncmp
    vox = 1.0
    for s in (sc or [1.0] * (case["nd"] + 1))[1:]:
        vox *= s
    for i, d in zip(ids, case["dets"]):
        a = g.nodes[i]
        ncmp += 1
        if a.get("time") != d["t"]:
            out.append(("node-attr", f"node {i} time {a.get('time')} != {d['t']}",
                        "C18/node-attr/time"))
        if not O.close(list(a.get("pos")), pos[ids.index(i)], rel=1e-9, abs_=1e-9):
            out.append(("node-attr", f"node {i} pos {a.get('pos')} != {pos[ids.index(i)]}",
                        "C18/node-attr/pos"))
        if case["kind"] == "seg":
            cnt = 1
            for lo, hi in d["sl"]:
                cnt *= hi - lo
            if not O.close(a.get("area"), cnt * vox):
                out.append(("node-attr", f"node {i} area {a.get('area')} != {cnt * vox}",
                            "C18/node-attr/area"))
    # edges
    exp_in, exp_out, dontcare = set(), set(), set()
    for ia, (i, a) in enumerate(zip(ids, case["dets"])):
        for ib, (j, b) in enumerate(zip(ids, case["dets"])):
            if i == j:
                continue
            if b["t"] != a["t"] + 1:
                exp_out.add((i, j))
                continue
            d2 = sum((x - y) ** 2 for x, y in zip(pos[ia], pos[ib]))
            d = d2 ** 0.5
            exactpair = case["exact"] and d * d == d2
            if abs(d - r) <= 1e-9 * max(r, 1.0) and not (exactpair and d == r):
                dontcare.add((i, j))
            elif d <= r:
                exp_in.add((i, j))
            else:
                exp_out.add((i, j))
    got = set(g.edges)
    ncmp += len(exp_in) + len(exp_out)
    missing = exp_in - got
    extra = (got - exp_in) - dontcare
    gap = any(True for _ in ())  # placeholder
    frames_present = sorted({d["t"] for d in case["dets"]})
    has_gap = any(b - a > 1 for a, b in zip(frames_present, frames_present[1:]))
    if missing:
        out.append(("edges-missing", f"missing edges {sorted(missing)[:6]} (r={r}, frames with "
                    f"detections {frames_present})",
                    f"C18/edges-missing/{'after-gap' if has_gap else 'no-gap'}/"
                    f"{case['rclass']}"))
    if extra:
        across = [e for e in extra
                  if case["dets"][ids.index(e[1])]["t"] != case["dets"][ids.index(e[0])]["t"] + 1]
        out.append(("edges-extra", f"unexpected edges {sorted(extra)[:6]} "
                    f"({len(across)} not between consecutive frames; frames with detections "
                    f"{frames_present})",
                    f"C18/edges-extra/{'across-gap' if across else 'too-far'}/"
                    f"{case['rclass']}"))
    if case["iou"] and not out:
        seg = data
        for (i, j) in got:
            ti = case["dets"][ids.index(i)]["t"]
            tj = case["dets"][ids.index(j)]["t"]
            ncmp += 1
            exp = O.ref_iou(seg, ti, i, tj, j)
            gotv = g.edges[(i, j)].get("iou")
            if gotv is None or not O.close(gotv, exp, rel=1e-12, abs_=1e-15):
                out.append(("iou", f"edge ({i},{j}) iou {gotv!r} != {exp!r}", "C18/iou"))
                break
    return out, ncmp


def judge_multihyp(rng, acc):
    """Several segmentation hypotheses: labels made unique, nodes extracted per hypothesis,
    graphs composed, candidate edges and IoU added with multiseg=True (the documented
    multi-hypothesis workflow, assembled from the public helpers)."""
    import networkx as nx

    from funtracks.candidate_graph.iou import add_iou
    from funtracks.candidate_graph.utils import add_cand_edges, nodes_from_segmentation

    nd = rng.choice([2, 2, 3])
    H, T = rng.randint(2, 3), rng.randint(2, 4)
    shape = (8, 8) if nd == 2 else (3, 5, 5)
    seg = np.zeros((H, T, *shape), dtype=np.int64)
    lab = 0
    det = {}  # label -> (h, t, slices)
    for h in range(H):
        for t in range(T):
            occ = np.zeros(shape, bool)
            for _ in range(rng.randint(0, 3)):
                c0 = [rng.randrange(0, s - 1) for s in shape]
                ext = [rng.choice([1, 2, 3]) for _ in shape]
                sl = tuple(slice(x, min(x + e, s)) for x, e, s in zip(c0, ext, shape))
                if occ[sl].any():
                    continue
                occ[sl] = True
                lab += 1
                seg[h, t][sl] = lab
                det[lab] = (h, t, sl)
    r = round(rng.uniform(1.0, 6.0), 3)
    out = []
    with warnings.catch_warnings():
        warnings.simplefilter("ignore")
        try:
            G = nx.DiGraph()
            nfd: dict = {}
            for h in range(H):
                g_h, d_h = nodes_from_segmentation(seg[h])
                G = nx.compose(G, g_h)
                for t, ns in d_h.items():
                    nfd.setdefault(t, []).extend(ns)
            if rng.random() < 0.5:
                # the frame dictionary is optional; and the composed graph's nodes need not
                # be stored in time order
                G2 = nx.DiGraph()
                order_ = list(G.nodes(data=True))
                rng.shuffle(order_)
                G2.add_nodes_from(order_)
                G = G2
                add_cand_edges(G, r)
                add_iou(G, seg, multiseg=True)
            else:
                add_cand_edges(G, r, nfd)
                add_iou(G, seg, nfd, multiseg=True)
        except Exception as e:
            return [("raised", f"multi-hypothesis workflow: {type(e).__name__}: {e}",
                     f"C18/multihyp/raised/{type(e).__name__}")], 0
    ncmp = 0
    if set(G.nodes) != set(det):
        return [("nodes", f"multi-hypothesis node set {sorted(G.nodes)} != {sorted(det)}",
                 "C18/multihyp/nodes")], 1
    cen = {l: [(sl_.start + sl_.stop - 1) / 2.0 for sl_ in sl] for l, (_, _, sl) in det.items()}
    for a, (ha, ta, _) in det.items():
        for b, (hb, tb, _) in det.items():
            if a == b:
                continue
            d = sum((x - y) ** 2 for x, y in zip(cen[a], cen[b])) ** 0.5
            ncmp += 1
            want = tb == ta + 1 and d <= r
            if tb == ta + 1 and abs(d - r) <= 1e-9 * max(r, 1.0):
                continue
            if want != G.has_edge(a, b):
                out.append(("edges", f"multi-hypothesis: edge ({a},{b}) hyp {ha}->{hb} frames "
                            f"{ta}->{tb} d={d:.3f} r={r}: present={G.has_edge(a, b)}",
                            "C18/multihyp/edges"))
                return out, ncmp
            if want:
                A = seg[ha, ta] == a
                B = seg[hb, tb] == b
                exp = float((A & B).sum()) / float((A | B).sum())
                gotv = G.edges[(a, b)].get("iou")
                ncmp += 1
                if gotv is None or not O.close(gotv, exp, rel=1e-12, abs_=1e-15):
                    out.append(("iou", f"multi-hypothesis edge ({a},{b}) hypotheses {ha}->{hb}: "
                                f"iou {gotv!r} != {exp!r}", "C18/multihyp/iou"))
                    return out, ncmp
    return out, ncmp


def _ser(state):
    return [state[0], list(state[1]), state[2]]


def plan(tier, seed):
    n = 60000 if tier == "quick" else 400000
    return [{"kind": "cases", "n": n // 16, "seed": common.seed_for(PROP, tier, seed, i)}
            for i in range(16)]


def run_shard(spec):
    rng = random.Random(spec["seed"])
    acc = common.new_acc()
    for i in range(spec["n"]):
        if i % 12 == 0:
            st = rng.getstate()
            probs, n = judge_multihyp(rng, acc)
            acc["evaluations"] += max(n, 1)
            acc["counters"]["multi-hypothesis-cases"] = \
                acc["counters"].get("multi-hypothesis-cases", 0) + 1
            for clause, what, key in probs[:1]:
                acc["violations"].append({"clause": clause, "what": what, "key": key,
                                          "replay": {"multihyp_rng_state": _ser(st)}})
        case = gen_case(rng)
        if case.get("far"):
            acc["counters"]["cases-far-from-origin"] = \
                acc["counters"].get("cases-far-from-origin", 0) + 1
        if case.get("unsorted"):
            acc["counters"]["point-lists-not-sorted-by-time"] = \
                acc["counters"].get("point-lists-not-sorted-by-time", 0) + 1
        if rng.random() < 0.4:
            pick_exact_radius(case, rng)
        probs, n = judge(case)
        acc["evaluations"] += max(n, 1)
        acc["counters"]["cases"] = acc["counters"].get("cases", 0) + 1
        pat = "".join("x" if any(d["t"] == t for d in case["dets"]) else "." 
                      for t in range(case["T"]))
        if sum(1 for c in pat if c == "x") >= 2:
            acc["keys"].add(f"{case['kind']}/{case['nd']}D/{pat}/{case['rclass']}")
        if "." in pat.strip(".") :
            acc["counters"]["cases-with-inner-gap"] = \
                acc["counters"].get("cases-with-inner-gap", 0) + 1
        if case["rclass"] != "random":
            acc["counters"]["cases-radius-on-distance"] = \
                acc["counters"].get("cases-radius-on-distance", 0) + 1
        if case["iou"]:
            acc["counters"]["cases-iou"] = acc["counters"].get("cases-iou", 0) + 1
        if not acc["samples"] and len(case["dets"]) > 2:
            acc["samples"].append({k: case[k] for k in ("kind", "nd", "T", "scale", "r")}
                                  | {"frames": pat, "detections": len(case["dets"])})
        for clause, what, key in probs[:1]:
            acc["violations"].append({"clause": clause, "what": what, "key": key,
                                      "replay": {"case": case}})
    return common.finish_acc(acc)


def floors(tier):
    return {"cases": 1500, "cases-with-inner-gap": 200, "cases-radius-on-distance": 200,
            "cases-iou": 200, "multi-hypothesis-cases": 300, "cases-far-from-origin": 100,
            "point-lists-not-sorted-by-time": 100}


def replay(doc):
    if "multihyp_rng_state" in doc:
        st = doc["multihyp_rng_state"]
        rng = random.Random()
        rng.setstate((st[0], tuple(st[1]), st[2]))
        probs, _ = judge_multihyp(rng, common.new_acc())
        return [{"clause": c, "what": w, "key": k} for c, w, k in probs]
    probs, _ = judge(doc["case"])
    return [{"clause": c, "what": w, "key": k} for c, w, k in probs]
