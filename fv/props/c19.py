"""C19 - label utilities: globally unique labels; relabelling by track."""

from __future__ import annotations

import random
import warnings

import numpy as np

from .. import oracles as O
from .. import gen
from . import common

PROP = "C19"
LEVEL = "exploration"
RULE = (
    "ensure_unique_labels: random label arrays (t,[z],y,x) and multi-hypothesis arrays "
    "(h,t,y,x) with frames that carry no label, labels repeated across frames, arbitrary label "
    "values up to 10^6; oracle (also attached as an icontract postcondition to the real "
    "function): same shape, same background, per frame a bijection old label <-> new label "
    "with identical pixel sets, no label in two different frames/hypotheses. "
    "relabel_segmentation_with_track_id: random solution sub-forests over random detections "
    "(labels reused across frames, detections outside the solution); oracle: own segment "
    "partition <-> labels one-to-one, pixels of detections outside the solution and background "
    "are 0. Non-trivial = array with >= 2 labelled frames; distinct = (function, ndim, pattern "
    "of empty frames, multiseg) resp. (number of segments, divisions, unused detections)"
)
ASSUMPTIONS = ["label values fit the array dtype after relabelling"]

STATS = {"post": 0}


class PostBroken(Exception):
    pass


def unique_problems(src: np.ndarray, out: np.ndarray, multiseg: bool) -> list[str]:
    probs = []
    if out.shape != src.shape:
        return [f"shape {out.shape} != {src.shape}"]
    if not np.array_equal(out == 0, src == 0):
        probs.append("background changed")
    a = src.reshape((-1, *src.shape[2:])) if multiseg else src
    b = out.reshape((-1, *out.shape[2:])) if multiseg else out
    seen: dict[int, int] = {}
    for f in range(a.shape[0]):
        fa, fb = a[f], b[f]
        olds = [int(x) for x in np.unique(fa) if x != 0]
        news = set()
        for o in olds:
            vals = np.unique(fb[fa == o])
            if len(vals) != 1:
                probs.append(f"frame {f}: region of old label {o} split into {vals.tolist()}")
                continue
            n = int(vals[0])
            if n in news:
                probs.append(f"frame {f}: two regions merged into new label {n}")
            news.add(n)
            if not np.array_equal(fb == n, fa == o):
                probs.append(f"frame {f}: pixel set of label {o} changed")
        for n in news:
            if n in seen and seen[n] != f:
                probs.append(f"label {n} occurs in frames {seen[n]} and {f}")
            seen[n] = f
    return probs


def post_unique(segmentation, multiseg, result):
    STATS["post"] += 1
    return not unique_problems(np.asarray(segmentation), np.asarray(result), multiseg)


_wrapped = {}


def contracted_unique():
    if "f" in _wrapped:
        return _wrapped["f"]
    import icontract

    import funtracks.utils._segmentation_utils as su

    f = icontract.ensure(post_unique, error=lambda segmentation, multiseg, result: PostBroken(
        unique_problems(np.asarray(segmentation), np.asarray(result), multiseg)))(
        su.ensure_unique_labels)
    _wrapped["f"] = f
    return f


def gen_label_array(rng: random.Random):
    nd = rng.choice([2, 2, 3])
    multiseg = rng.random() < 0.3  # (h, t, [z], y, x)
    T = rng.randint(1, 6)
    H = rng.randint(1, 3) if multiseg else None
    shape = (6, 6) if nd == 2 else (3, 4, 4)
    nframes = T * (H or 1)
    arr = np.zeros((nframes, *shape), dtype=rng.choice([np.int32, np.int64, np.uint16]))
    pattern = ""
    pool = rng.choice([[1, 2, 3], [1, 2, 3, 4, 5, 6], [5, 17, 300], [1, 1000, 60000]])
    big64 = False
    if arr.dtype == np.int64 and rng.random() < 0.1:
        # 64-bit labels beyond 2**53 (not representable as doubles)
        pool = [1, 2, 2**53 + 1, 2**53 + 3]
        big64 = True
    tiny = rng.random() < 0.15 and not big64
    if tiny:
        # tiny frames that labels can cover completely (a frame without any background),
        # with the same label values used again in other frames
        shape = (1, 2) if nd == 2 else (1, 1, 2)
        arr = np.zeros((nframes, *shape), dtype=arr.dtype)
        pool = [1, 2, 3]
    for f in range(nframes):
        if rng.random() < 0.3:
            pattern += "."
            continue
        pattern += "x"
        if tiny and rng.random() < 0.6:
            vals = [rng.choice(pool) for _ in range(int(np.prod(shape)))]
            arr[f] = np.array(vals, dtype=arr.dtype).reshape(shape)
            continue
        k = rng.randint(1, min(3, len(pool)))
        for lab in rng.sample(pool, k):
            occ = arr[f] != 0
            cells = gen.grow_blob(rng, occ, rng.choice([1, 2, 4]))
            for c in cells:
                arr[f][c] = lab
    if multiseg:
        arr = arr.reshape((H, T, *shape))
    # memory layout: C-contiguous, or a view with permuted axes (np.moveaxis / swapaxes of a
    # stack that was built in another axis order), or every second element of a larger array
    layout = rng.choice(["C", "C", "moved", "strided"])
    if layout == "moved" and arr.ndim >= 3:
        arr = np.moveaxis(np.ascontiguousarray(np.moveaxis(arr, 1, 0)), 0, 1)
    elif layout == "strided":
        big = np.zeros((*arr.shape[:-1], arr.shape[-1] * 2), dtype=arr.dtype)
        big[..., ::2] = arr
        arr = big[..., ::2]
    return arr, multiseg, pattern, nd


def check_unique(rng, acc):
    arr, multiseg, pattern, nd = gen_label_array(rng)
    f = contracted_unique()
    src = arr.copy()
    acc["evaluations"] += 1
    acc["counters"]["unique-cases"] = acc["counters"].get("unique-cases", 0) + 1
    if "." in pattern.strip(".") or (pattern.startswith(".") and "x" in pattern):
        acc["counters"]["unique-with-empty-frame-before-labels"] = \
            acc["counters"].get("unique-with-empty-frame-before-labels", 0) + 1
    if any((fr != 0).all() for fr in (arr.reshape((-1, *arr.shape[2:])) if multiseg else arr)):
        acc["counters"]["unique-with-a-frame-without-background"] = \
            acc["counters"].get("unique-with-a-frame-without-background", 0) + 1
    if not arr.flags["C_CONTIGUOUS"]:
        acc["counters"]["unique-non-contiguous-input"] = \
            acc["counters"].get("unique-non-contiguous-input", 0) + 1
    if multiseg and nd == 3:
        acc["counters"]["unique-multiseg-3d"] = acc["counters"].get("unique-multiseg-3d", 0) + 1
    if pattern.count("x") >= 2:
        acc["keys"].add(f"unique/{nd}D/{pattern}/multiseg={multiseg}")
    try:
        with warnings.catch_warnings():
            warnings.simplefilter("ignore")
            f(arr, multiseg)
    except PostBroken as e:
        probs = e.args[0]
        kind = "label-repeated" if any("occurs in frames" in p for p in probs) else \
            "partition-changed"
        empty_before = "." in pattern.strip(".") or pattern.startswith(".")
        acc["violations"].append({
            "clause": "unique-labels", "what": f"pattern {pattern} multiseg={multiseg}: "
            f"{probs[:3]}", "key": f"C19/unique/{kind}/"
            f"{'after-empty-frame' if empty_before else 'no-empty-frame'}",
            "replay": {"fn": "unique", "array": src.tolist(), "dtype": str(src.dtype),
                       "multiseg": multiseg}})
    if not acc["samples"] and pattern.count("x") >= 2:
        acc["samples"].append({"fn": "ensure_unique_labels", "frames": pattern,
                               "multiseg": multiseg, "labels": np.unique(src).tolist()})


def relabel_problems(times, seg_ids, edges, seg, out) -> list[str]:
    probs = []
    if out.shape != seg.shape:
        return [f"shape {out.shape} != {seg.shape}"]
    segs = O.segment_partition(times.keys(), edges)
    lab_of_seg = {}
    covered = np.zeros(seg.shape, bool)
    for s in segs:
        labs = set()
        for n in s:
            m = seg[times[n]] == seg_ids[n]
            covered[times[n]] |= m
            vals = np.unique(out[times[n]][m])
            labs.update(int(v) for v in vals)
        if len(labs) != 1 or 0 in labs:
            probs.append(f"segment {sorted(s)} carries labels {sorted(labs)}")
        else:
            lab_of_seg[frozenset(s)] = next(iter(labs))
    if len(set(lab_of_seg.values())) != len(lab_of_seg):
        probs.append("two segments share a label")
    if (out[~covered] != 0).any():
        probs.append("pixels outside the solution are not 0")
    return probs


def check_relabel_many(rng, acc):
    """A solution with 255, 256 or 257 one-node tracks: every detection keeps a non-zero
    label of its own."""
    import networkx as nx

    from funtracks.utils import relabel_segmentation_with_track_id

    n = rng.choice([255, 256, 257, 258])
    seg = np.zeros((2, 20, 20), dtype=rng.choice([np.int32, np.int64, np.uint16]))
    g = nx.DiGraph()
    k = 0
    for t in range(2):
        for y in range(20):
            for x in range(20):
                if k < n and (y + x + t) % 3 != 2:
                    k += 1
                    seg[t, y, x] = k
                    g.add_node(k, time=t, seg_id=k)
    src = seg.copy()
    with warnings.catch_warnings():
        warnings.simplefilter("ignore")
        out = np.asarray(relabel_segmentation_with_track_id(g, seg))
    acc["evaluations"] += 1
    acc["counters"]["relabel-many-segments"] = acc["counters"].get("relabel-many-segments", 0) + 1
    labs = out[src != 0]
    if (labs == 0).any() or len(set(int(v) for v in labs)) != k or (out[src == 0] != 0).any():
        acc["violations"].append({
            "clause": "relabel-by-track",
            "what": f"{k} one-node tracks: {int((labs == 0).sum())} detections lost their "
                    f"label, {len(set(int(v) for v in labs))} distinct labels",
            "key": "C19/relabel/many-segments",
            "replay": {"fn": "relabel-many", "n": n}})


def check_relabel(rng, acc):
    from funtracks.utils import relabel_segmentation_with_track_id

    nd = rng.choice([2, 2, 3])
    T = rng.randint(2, 6)
    forest = gen.random_forest(rng, T, rng.choice([2, 3, 4]), "sparse",
                               rng.choice([0, 0.3]), p_empty=0.2)
    shape = (8, 8) if nd == 2 else (3, 5, 5)
    # detections: labels reused across frames; the solution refers to them by seg_id
    seg = np.zeros((T, *shape), dtype=np.int32)
    seg_ids = {}
    extra = 0
    for t in range(T):
        nodes_t = [n for n, tt in forest.times.items() if tt == t]
        labs = rng.sample(range(1, 12), min(11, len(nodes_t) + rng.randint(0, 2)))
        for i, lab in enumerate(labs):
            occ = seg[t] != 0
            cells = gen.grow_blob(rng, occ, rng.choice([1, 3, 5]))
            if not cells:
                continue
            for c in cells:
                seg[t][c] = lab
            if i < len(nodes_t):
                seg_ids[nodes_t[i]] = lab
            else:
                extra += 1
    times = {n: t for n, t in forest.times.items() if n in seg_ids}
    edges = [(u, v) for u, v in forest.edges if u in times and v in times]
    if rng.random() < 0.15:
        # the function takes any directed graph: a node may have three (or more) children
        roots = [v for v in times if all(e[1] != v for e in edges)]
        rng.shuffle(roots)
        for v in roots:
            ps = [u for u in times if times[u] < times[v]
                  and sum(1 for e in edges if e[0] == u) == 2]
            if ps:
                edges.append((rng.choice(ps), v))
                acc["counters"]["relabel-three-way-division"] = \
                    acc["counters"].get("relabel-three-way-division", 0) + 1
                break
    import networkx as nx

    g = nx.DiGraph()
    order_ = list(times.items())
    if rng.random() < 0.5:
        rng.shuffle(order_)  # nodes need not have been inserted in time order (edits, undo)
        acc["counters"]["relabel-nodes-not-in-time-order"] = \
            acc["counters"].get("relabel-nodes-not-in-time-order", 0) + 1
    for n, t in order_:
        g.add_node(n, time=t, seg_id=seg_ids[n])
    if rng.random() < 0.45:
        # the graph of a solution that was annotated earlier: nodes carry track / lineage
        # ids that describe an OLDER topology (lineage-style ids, ids from before an edge
        # was pruned, arbitrary ids) - the relabelling follows the graph as passed
        comps = O.component_partition(times.keys(), edges)
        style = rng.choice(["lineage", "stale", "random", "partial"])
        for ci, comp in enumerate(sorted(comps, key=min)):
            for n in comp:
                if style == "lineage":
                    g.nodes[n]["track_id"] = ci + 1
                elif style == "stale":
                    g.nodes[n]["track_id"] = 1 + (ci + times[n] // 2) % 3
                elif style == "random" or rng.random() < 0.6:
                    g.nodes[n]["track_id"] = rng.randint(1, 4)
                g.nodes[n]["lineage_id"] = ci + 1
        acc["counters"]["relabel-graph-carries-old-ids"] = \
            acc["counters"].get("relabel-graph-carries-old-ids", 0) + 1
    es_ = list(edges)
    rng.shuffle(es_)
    g.add_edges_from(es_)
    src = seg.copy()
    with warnings.catch_warnings():
        warnings.simplefilter("ignore")
        out = relabel_segmentation_with_track_id(g, seg)
    acc["evaluations"] += 1
    acc["counters"]["relabel-cases"] = acc["counters"].get("relabel-cases", 0) + 1
    ndiv = sum(1 for n in g if g.out_degree(n) == 2)
    nseg = len(O.segment_partition(times.keys(), edges))
    if nseg >= 2:
        acc["keys"].add(f"relabel/{nd}D/segments={min(nseg, 9)}/div={min(ndiv, 3)}/"
                        f"unused={min(extra, 3)}")
    if ndiv:
        acc["counters"]["relabel-with-division"] = \
            acc["counters"].get("relabel-with-division", 0) + 1
    if extra:
        acc["counters"]["relabel-with-unused-detections"] = \
            acc["counters"].get("relabel-with-unused-detections", 0) + 1
    probs = relabel_problems(times, seg_ids, edges, src, np.asarray(out))
    if not np.array_equal(seg, src):
        probs.append("input segmentation was modified")
    if not probs and edges and rng.random() < 0.4:
        # the caller edits the SAME graph object (an edge re-wired: node and edge counts
        # stay as they are) and relabels again
        u, v = rng.choice(edges)
        cands = [w for w in times if w != u and times[w] < times[v] and g.out_degree(w) < 2
                 and not g.has_edge(w, v)]
        if cands:
            w = rng.choice(cands)
            g.remove_edge(u, v)
            g.add_edge(w, v)
            edges = [e for e in edges if e != (u, v)] + [(w, v)]
            with warnings.catch_warnings():
                warnings.simplefilter("ignore")
                out = relabel_segmentation_with_track_id(g, seg)
            acc["evaluations"] += 1
            acc["counters"]["relabel-again-after-rewiring"] = \
                acc["counters"].get("relabel-again-after-rewiring", 0) + 1
            probs = ["after re-wiring: " + p for p in
                     relabel_problems(times, seg_ids, edges, src, np.asarray(out))]
    if probs:
        acc["violations"].append({
            "clause": "relabel-by-track", "what": str(probs[:3]),
            "key": "C19/relabel/" + probs[0].split(" ")[0],
            "replay": {"fn": "relabel", "seg": src.tolist(), "times": times,
                       "seg_ids": seg_ids, "edges": edges}})


def plan(tier, seed):
    n = 100000 if tier == "quick" else 600000
    return [{"kind": "cases", "n": n // 16, "seed": common.seed_for(PROP, tier, seed, i)}
            for i in range(16)]


def run_shard(spec):
    rng = random.Random(spec["seed"])
    acc = common.new_acc()
    STATS["post"] = 0
    for i in range(spec["n"]):
        if i % 2000 == 7:
            check_relabel_many(rng, acc)
        if i % 2:
            check_unique(rng, acc)
        else:
            check_relabel(rng, acc)
        if len(acc["violations"]) > 20:
            break
    acc["counters"]["postcondition-evaluations"] = STATS["post"]
    return common.finish_acc(acc)


def floors(tier):
    return {"unique-cases": 1500, "relabel-cases": 1500, "postcondition-evaluations": 1500,
            "unique-with-empty-frame-before-labels": 300, "relabel-with-division": 200,
            "relabel-with-unused-detections": 300, "unique-multiseg-3d": 100,
            "unique-with-a-frame-without-background": 100,
            "unique-non-contiguous-input": 1000, "relabel-nodes-not-in-time-order": 1000, "relabel-again-after-rewiring": 500,
            "relabel-graph-carries-old-ids": 400}


def replay(doc):
    acc = common.new_acc()
    if doc["fn"] == "relabel-many":
        for _ in range(8):
            check_relabel_many(random.Random(doc["n"]), acc)
        return acc["violations"][:1]
    if doc["fn"] == "unique":
        arr = np.array(doc["array"], dtype=doc["dtype"])
        f = contracted_unique()
        try:
            f(arr, doc["multiseg"])
        except PostBroken as e:
            probs = e.args[0]
            kind = "label-repeated" if any("occurs in frames" in p for p in probs) else \
                "partition-changed"
            return [{"clause": "unique-labels", "what": str(probs[:3]),
                     "key": f"C19/unique/{kind}/replay"}]
        return []
    import networkx as nx

    from funtracks.utils import relabel_segmentation_with_track_id

    seg = np.array(doc["seg"], dtype=np.int32)
    times = {int(k): v for k, v in doc["times"].items()}
    seg_ids = {int(k): v for k, v in doc["seg_ids"].items()}
    edges = [tuple(e) for e in doc["edges"]]
    g = nx.DiGraph()
    order_ = list(times.items())
    if rng.random() < 0.5:
        rng.shuffle(order_)  # nodes need not have been inserted in time order (edits, undo)
        acc["counters"]["relabel-nodes-not-in-time-order"] = \
            acc["counters"].get("relabel-nodes-not-in-time-order", 0) + 1
    for n, t in order_:
        g.add_node(n, time=t, seg_id=seg_ids[n])
    if rng.random() < 0.45:
        # the graph of a solution that was annotated earlier: nodes carry track / lineage
        # ids that describe an OLDER topology (lineage-style ids, ids from before an edge
        # was pruned, arbitrary ids) - the relabelling follows the graph as passed
        comps = O.component_partition(times.keys(), edges)
        style = rng.choice(["lineage", "stale", "random", "partial"])
        for ci, comp in enumerate(sorted(comps, key=min)):
            for n in comp:
                if style == "lineage":
                    g.nodes[n]["track_id"] = ci + 1
                elif style == "stale":
                    g.nodes[n]["track_id"] = 1 + (ci + times[n] // 2) % 3
                elif style == "random" or rng.random() < 0.6:
                    g.nodes[n]["track_id"] = rng.randint(1, 4)
                g.nodes[n]["lineage_id"] = ci + 1
        acc["counters"]["relabel-graph-carries-old-ids"] = \
            acc["counters"].get("relabel-graph-carries-old-ids", 0) + 1
    es_ = list(edges)
    rng.shuffle(es_)
    g.add_edges_from(es_)
    out = relabel_segmentation_with_track_id(g, seg.copy())
    probs = relabel_problems(times, seg_ids, edges, seg, np.asarray(out))
    return [{"clause": "relabel-by-track", "what": str(probs[:3]),
             "key": "C19/relabel/" + probs[0].split(" ")[0]}] if probs else []
