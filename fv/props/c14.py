"""C14 - export followed by import is the identity."""

from __future__ import annotations

import random
import shutil
import warnings
from pathlib import Path

import numpy as np

from .. import checks, env, gen, oracles as O, session
from ..canon import norm
from . import common

PROP = "C14"
LEVEL = "exploration"
RULE = (
    "states = freshly built tracks and final states of random editing sessions in all "
    "configurations (2-D/3-D, with/without segmentation, single-key/per-axis position, "
    "non-contiguous node and track ids, divisions, skip edges, isolated nodes, registered "
    "custom features); each state is written and read back through three routes, each on its "
    "own deep copy: export_to_csv -> read_csv(round_trip) -> tracks_from_df(explicit "
    "corresponding map) [plain header and display-name header]; export_to_geff -> "
    "import_from_geff(explicit map, segmentation_path, loaded features); save_tracks -> "
    "load_tracks(solution=True). Oracle: equality of nodes, edges, time, position, track ids "
    "and loaded feature values (exact); GEFF + internal: segmentation equal; internal: scale "
    "and FeatureDict.dump_json() equal. Distinct = (route, configuration, state came from "
    "editing?, number of nodes class)"
)
ASSUMPTIONS = [
    "the explicit mapping corresponding to the exported header is used (C17 is about inference)",
    "a GEFF import refused by the importer's one-pixel sample check (non-convex mask whose "
    "centroid lies outside it) is counted, not judged",
]


def state_for(rng, edited):
    if not edited and rng.random() < 0.12:
        # movie longer than one storage chunk (64 frames) of the exported label array
        cfg = gen.big_config(rng, seg=rng.random() < 0.8)
        tracks, _, _ = gen.build_tracks(cfg)
        return cfg, tracks, []
    cfg = gen.random_config(rng, p3d=0.2)
    if rng.random() < 0.3:
        cfg.extra = tuple(k for k in cfg.extra)  # keep
    if edited:
        sess = session.run_random_session(cfg, [], rng.randrange(1 << 30), rng.randint(5, 25),
                                          refusal_rate=0.3)
        return cfg, sess.tracks, sess.ops
    tracks, _, _ = gen.build_tracks(cfg)
    return cfg, tracks, []


def snapshot(tracks, keys=None):
    g = tracks.graph
    f = tracks.features
    nkeys = keys if keys is not None else list(f.node_features)
    return {
        "nodes": {int(n): {k: norm(tracks.get_node_attr(n, k)) for k in nkeys} for n in g.nodes},
        "edges": sorted((int(u), int(v)) for u, v in g.edges),
        "time": {int(n): tracks.get_time(n) for n in g.nodes},
        "pos": {int(n): norm(tracks.get_position(n)) for n in g.nodes},
        "tid": {int(n): tracks.get_track_id(n) for n in g.nodes},
        "lid": {int(n): tracks.get_lineage_id(n) for n in g.nodes},
    }


def cmp_basic(a, b, route, exact_pos=True):
    probs = []
    if set(a["nodes"]) != set(b["nodes"]):
        return [(f"{route}-nodes", f"nodes {sorted(a['nodes'])} -> {sorted(b['nodes'])}",
                 f"C14/{route}/nodes")]
    if a["edges"] != b["edges"]:
        probs.append((f"{route}-edges", f"edges {a['edges']} -> {b['edges']}",
                      f"C14/{route}/edges"))
    for n in a["nodes"]:
        if a["time"][n] != b["time"][n]:
            probs.append((f"{route}-time", f"node {n} time {a['time'][n]} -> {b['time'][n]}",
                          f"C14/{route}/time"))
            break
        if not O.close(a["pos"][n], b["pos"][n], rel=0, abs_=0):
            probs.append((f"{route}-pos", f"node {n} pos {a['pos'][n]} -> {b['pos'][n]}",
                          f"C14/{route}/pos"))
            break
        if a["tid"][n] != b["tid"][n]:
            probs.append((f"{route}-track-id", f"node {n} track id {a['tid'][n]} -> "
                          f"{b['tid'][n]}", f"C14/{route}/track-id"))
            break
    return probs


def route_csv(tracks, wd, display):
    import pandas as pd

    from funtracks.import_export import export_to_csv, tracks_from_df

    t = checks.detached_copy(tracks)
    a = snapshot(t)
    if not a["nodes"]:
        return None
    map_lineage = False
    out = wd / "x.csv"
    axes = ["z", "y", "x"] if t.ndim == 4 else ["y", "x"]
    f = t.features
    with warnings.catch_warnings():
        warnings.simplefilter("ignore")
        export_to_csv(t, out, use_display_names=display)
        df = pd.read_csv(out, float_precision="round_trip")
        loaded = []
        if not display:
            nm = {"time": "t", "pos": axes, "id": "id", "parent_id": "parent_id",
                  "track_id": "track_id"}
        else:
            nm = {"id": "ID", "parent_id": "Parent ID", "time": "Time",
                  "track_id": "Tracklet ID"}
            lname = f[f.lineage_key].get("display_name") if f.lineage_key in f else None
            if lname and lname in df.columns:
                nm["lineage_id"] = lname
                map_lineage = True
            pk = f.position_key
            if isinstance(pk, list):
                nm["pos"] = list(pk)
            else:
                nm["pos"] = list(f[pk]["value_names"])
            for k in ("score", "tag", "ok", "area", "circularity", "perimeter"):
                if k in f and f[k].get("display_name", k) in df.columns \
                        and f[k].get("num_values", 1) == 1:
                    nm[k] = f[k].get("display_name", k)
                    loaded.append(k)
        b_tracks = tracks_from_df(df, scale=None if t.scale is None else list(t.scale),
                                  node_name_map=nm)
    b = snapshot(b_tracks, keys=[])
    route = "csv-display" if display else "csv"
    probs = cmp_basic(a, b, route)
    if map_lineage and not probs and lineage_labels_components(t):
        for n in a["nodes"]:
            if a["lid"][n] != b["lid"][n]:
                probs.append((f"{route}-lineage-id", f"node {n} lineage id {a['lid'][n]} -> "
                              f"{b['lid'][n]} (mapped, valid)", f"C14/{route}/lineage-id"))
                break
    for k in loaded:
        for n in a["nodes"]:
            x = a["nodes"][n].get(k)
            y = norm(b_tracks.get_node_attr(n, k))
            if y == "NaN":
                y = None  # the format cannot distinguish a missing value from NaN
            if x == "":
                x = None  # ... nor an empty string from an empty cell
            if x != y:
                probs.append((f"{route}-feature", f"node {n} {k}: {x!r} -> {y!r}",
                              f"C14/{route}/feature/{k}"))
                break
    return probs


def centroid_outside_own_mask(t) -> bool:
    """Is there a node in the tracks that were written whose (scaled-back, truncated)
    position does not carry the node's own label? Only then may the importer's sample
    check legitimately refuse the store."""
    seg = t.segmentation
    if seg is None:
        return False
    scale = [1.0] * seg.ndim if t.scale is None else list(t.scale)
    for n in t.graph.nodes:
        pos = t.get_position(n)
        coord = [int(t.get_time(n))] + list(pos)
        px = tuple(int(c / s) for c, s in zip(coord, scale))
        if any(not (0 <= c < d) for c, d in zip(px, seg.shape)) or seg[px] != n:
            return True
    return False


def lineage_labels_components(t) -> bool:
    """True if the lineage ids of the state that is written are a valid labelling (own
    union-find); only then is the importer obliged to keep them."""
    nodes = [int(n) for n in t.graph.nodes]
    ref = O.component_partition(nodes, [(int(u), int(v)) for u, v in t.graph.edges])
    labels = {n: t.get_lineage_id(n) for n in nodes}
    return all(v is not None for v in labels.values()) and O.label_partition(labels) == ref


def route_geff(tracks, wd):
    from funtracks.import_export import export_to_geff, import_from_geff

    t = checks.detached_copy(tracks)
    a = snapshot(t)
    if not a["nodes"]:
        return None
    d = wd / "x.zarr"
    if d.exists():
        shutil.rmtree(d)
    f = t.features
    pk = f.position_key
    axes = list(pk) if isinstance(pk, list) else (["z", "y", "x"] if t.ndim == 4 else ["y", "x"])
    nm = {"time": f.time_key, "pos": axes, "track_id": f.tracklet_key,
          "lineage_id": f.lineage_key}
    loaded = {}
    for k in list(f.node_features):
        if k in (f.time_key, f.tracklet_key, f.lineage_key) or k == pk or \
                (isinstance(pk, list) and k in pk):
            continue
        if f[k]["num_values"] != 1:
            continue  # multi-value features are spread by the exporter only for position
        if not any(k in d for _, d in t.graph.nodes(data=True)):
            continue  # registered but present on no node: nothing is written for it
        nm[k] = k
        loaded[k] = False
    # edge features that carry values are loaded as well (IoU, registered custom ones)
    eloaded = {}
    for k in list(f.edge_features):
        if f[k]["num_values"] == 1 and any(k in dd for _, _, dd in t.graph.edges(data=True)):
            eloaded[k] = False
    if len(a["nodes"]) % 3 == 1:
        # the caller loads the track ids but asks for the lineage ids to be recomputed
        loaded = dict(loaded)
        loaded[f.lineage_key] = True
        loaded[f.tracklet_key] = False  # ... while the track ids are to be loaded as written
        recomputed_lineage = True
    else:
        recomputed_lineage = False
    with warnings.catch_warnings():
        warnings.simplefilter("ignore")
        export_to_geff(t, d, zarr_format=3 if len(a["nodes"]) % 2 else 2)
        segp = (d / "segmentation") if t.segmentation is not None else None
        try:
            b_tracks = import_from_geff(d / "tracks", node_name_map=nm, segmentation_path=segp,
                                        scale=None if t.scale is None else list(t.scale),
                                        node_features=loaded or None,
                                        edge_name_map={k: k for k in eloaded} or None,
                                        edge_features=eloaded or None)
        except ValueError as e:
            if ("Error testing seg id" in str(e) or "out of bounds" in str(e)) and \
                    centroid_outside_own_mask(t):
                # refused by design: the importer samples a node's centroid pixel, and in
                # the state that was written some node's centroid lies outside its mask
                return "sample-check"
            raise
    b = snapshot(b_tracks, keys=[])
    probs = cmp_basic(a, b, "geff")
    if not probs and lineage_labels_components(t) and not recomputed_lineage:
        # lineage_id is in the mapping, so it is loaded: the ids must come back as written
        for n in a["nodes"]:
            if a["lid"][n] != b["lid"][n]:
                probs.append(("geff-lineage-id", f"node {n} lineage id {a['lid'][n]} -> "
                              f"{b['lid'][n]} (mapped, valid, must be loaded as written)",
                              "C14/geff/lineage-id"))
                break
    lk = f.lineage_key
    for n in a["nodes"]:
        for k in loaded:
            if loaded[k]:
                continue  # recomputed on request, not loaded
            x = a["nodes"][n].get(k)
            y = norm(b_tracks.get_node_attr(n, k))
            if x != y and not (x is None and (y is None or y != y or y == "NaN")):
                probs.append(("geff-feature", f"node {n} {k}: {x!r} -> {y!r}",
                              f"C14/geff/feature/{k}"))
                break
        if probs:
            break
    if not probs:
        for (u, v) in t.graph.edges:
            for k in eloaded:
                x = norm(t.get_edge_attr((u, v), k))
                y = norm(b_tracks.get_edge_attr((u, v), k))
                if x != y and not (x is None and (y is None or y == "NaN")):
                    probs.append(("geff-edge-feature", f"edge ({u},{v}) {k}: {x!r} -> {y!r}",
                                  f"C14/geff/edge-feature/{k}"))
                    break
            if probs:
                break
    if t.segmentation is not None and not probs:
        if not np.array_equal(np.asarray(b_tracks.segmentation), np.asarray(t.segmentation)):
            probs.append(("geff-seg", "segmentation differs after the GEFF round trip",
                          "C14/geff/seg"))
    return probs


RESAVES = {"n": 0}


def route_internal(tracks, wd):
    from funtracks.import_export import load_tracks, save_tracks

    t = checks.detached_copy(tracks)
    a = snapshot(t)
    d = wd / "internal"
    if d.exists():
        shutil.rmtree(d)
    resaved = False
    legacy = len(a["nodes"]) % 4 == 1  # the deprecated method entry points
    if legacy:
        save_tracks = lambda tr, dd: tr.save(dd)  # noqa: E731
        load_tracks = lambda dd, solution=True: type(t).load(dd, solution=solution)  # noqa: E731
    with warnings.catch_warnings():
        warnings.simplefilter("ignore")
        save_tracks(t, d)
        # often the session goes on (undo / redo) and the tracks are saved again to the SAME
        # directory: what is loaded afterwards must be the state of the second save
        if len(a["nodes"]) % 3 != 0:
            moved = False
            try:
                moved = t.undo() is True
                if moved and len(a["nodes"]) % 2:
                    moved = t.redo() is True and t.undo() is True
            except Exception:
                moved = False
            if moved:
                a = snapshot(t)
                save_tracks(t, d)
                resaved = True
        b_tracks = load_tracks(d, solution=True)
    probs = []
    RESAVES["n"] += int(resaved)
    if set(b_tracks.features) != set(t.features):
        probs.append(("internal-registry", f"registry {sorted(t.features)} -> "
                      f"{sorted(b_tracks.features)}", "C14/internal/registry"))
        return probs
    b = snapshot(b_tracks)
    if a["nodes"]:
        probs += cmp_basic(a, b, "internal")
        if not probs and a["lid"] != b["lid"]:
            probs.append(("internal-lineage-id", "lineage ids differ after save/load",
                          "C14/internal/lineage-id"))
    if not probs and a["nodes"] != b["nodes"]:
        for n in a["nodes"]:
            if a["nodes"][n] != b["nodes"][n]:
                ks = [k for k in a["nodes"][n] if a["nodes"][n][k] != b["nodes"][n].get(k)]
                probs.append(("internal-feature", f"node {n}: {ks} "
                              f"{[a['nodes'][n][k] for k in ks]} -> "
                              f"{[b['nodes'][n].get(k) for k in ks]}",
                              f"C14/internal/feature/{ks[0]}"))
                break
    if not probs:
        for (u, v) in t.graph.edges:
            for k in t.features.edge_features:
                if norm(t.get_edge_attr((u, v), k)) != norm(b_tracks.get_edge_attr((u, v), k)):
                    probs.append(("internal-edge-feature", f"edge ({u},{v}) {k} differs",
                                  f"C14/internal/edge-feature/{k}"))
                    break
            if probs:
                break
    if not probs:
        sa, sb = t.segmentation, b_tracks.segmentation
        if (sa is None) != (sb is None) or (sa is not None and not np.array_equal(sa, sb)):
            probs.append(("internal-seg", "segmentation differs", "C14/internal/seg"))
        if not probs and sa is not None and len(a["nodes"]) % 2 and b_tracks.graph.number_of_nodes():
            # the loaded object is edited (not saved); reading the directory again must
            # still give what was written there
            from funtracks.user_actions import UserDeleteNode

            with warnings.catch_warnings():
                warnings.simplefilter("ignore")
                try:
                    UserDeleteNode(b_tracks, next(iter(b_tracks.graph.nodes)))
                    c_tracks = load_tracks(d, solution=True)
                    if not np.array_equal(np.asarray(c_tracks.segmentation), np.asarray(sa)):
                        probs.append(("internal-seg", "editing the loaded tracks changed what "
                                      "a second load of the same directory returns",
                                      "C14/internal/seg/second-load-after-edit"))
                except Exception as e:
                    probs.append(("internal-raised", f"second load after editing the loaded "
                                  f"tracks: {type(e).__name__}: {str(e)[:200]}",
                                  f"C14/internal/raised/second-load/{type(e).__name__}"))
        if norm(t.scale) != norm(b_tracks.scale):
            probs.append(("internal-scale", f"scale {t.scale} -> {b_tracks.scale}",
                          "C14/internal/scale"))
        import json as _json

        def _j(x):  # a tuple and a list are the same thing in the file format
            return _json.loads(_json.dumps(x, default=str))

        if _j(t.features.dump_json()) != _j(b_tracks.features.dump_json()):
            probs.append(("internal-registry", "FeatureDict.dump_json() differs",
                          "C14/internal/registry-json"))
    return probs


def plan(tier, seed):
    n = 480 if tier == "quick" else 6000
    return [{"kind": "cases", "n": n // 16, "seed": common.seed_for(PROP, tier, seed, i)}
            for i in range(16)]


def run_case(cfg, tracks, wd, acc, edited, replay_doc):
    n = tracks.graph.number_of_nodes()
    for route in ("csv", "csv-display", "geff", "internal"):
        try:
            if route == "csv":
                probs = route_csv(tracks, wd, False)
            elif route == "csv-display":
                probs = route_csv(tracks, wd, True)
            elif route == "geff":
                probs = route_geff(tracks, wd)
            else:
                probs = route_internal(tracks, wd)
        except Exception as e:
            import traceback

            probs = [(f"{route}-raised", f"{type(e).__name__}: {str(e)[:300]} "
                      f"[{traceback.format_exc().splitlines()[-3].strip()[:150]}]",
                      f"C14/{route}/raised/{type(e).__name__}")]
        if probs is None:
            continue
        if probs == "sample-check":
            acc["counters"]["import_refused_by_sample_check"] = \
                acc["counters"].get("import_refused_by_sample_check", 0) + 1
            continue
        acc["evaluations"] += 1
        acc["counters"][f"route-{route}"] = acc["counters"].get(f"route-{route}", 0) + 1
        acc["keys"].add(f"{route}/{cfg.tag()}/edited={edited}/n={min(n, 12) // 3}")
        for clause, what, key in probs[:1]:
            acc["violations"].append({"clause": clause, "what": what, "key": key,
                                      "replay": dict(replay_doc, route=route)})


def run_shard(spec):
    rng = random.Random(spec["seed"])
    acc = common.new_acc()
    wd = env.workdir("c14")
    try:
        for i in range(spec["n"]):
            edited = rng.random() < 0.6
            cfg, tracks, ops = state_for(rng, edited)
            acc["counters"]["states"] = acc["counters"].get("states", 0) + 1
            if edited:
                acc["counters"]["states-after-editing"] = \
                    acc["counters"].get("states-after-editing", 0) + 1
            if cfg.big:
                acc["counters"]["states-longer-than-one-chunk"] = \
                    acc["counters"].get("states-longer-than-one-chunk", 0) + 1
            if 0 in tracks.graph and tracks.graph.out_degree(0) > 0:
                acc["counters"]["states-where-node-0-is-a-parent"] = \
                    acc["counters"].get("states-where-node-0-is-a-parent", 0) + 1
            run_case(cfg, tracks, wd, acc, edited, {"config": cfg.to_json(), "ops": ops})
            if not acc["samples"] and ops:
                acc["samples"].append({"config": cfg.tag(), "ops_before_export": ops[:5],
                                       "nodes": tracks.graph.number_of_nodes()})
            if len(acc["violations"]) > 20:
                break
    finally:
        shutil.rmtree(wd, ignore_errors=True)
    acc["counters"]["internal-saved-again-after-undo"] = RESAVES["n"]
    return common.finish_acc(acc)


def floors(tier):
    return {"states": 250, "states-after-editing": 120, "route-csv": 200,
            "route-csv-display": 200, "route-geff": 150, "route-internal": 250,
            "states-longer-than-one-chunk": 4, "states-where-node-0-is-a-parent": 5,
            "internal-saved-again-after-undo": 40}


def replay(doc):
    cfg = gen.Config.from_json(doc["config"])
    sess = session.run_ops_session(cfg, [], doc["ops"])
    acc = common.new_acc()
    wd = env.workdir("c14r")
    try:
        run_case(cfg, sess.tracks, wd, acc, bool(doc["ops"]), {})
    finally:
        shutil.rmtree(wd, ignore_errors=True)
    return [v for v in acc["violations"]]
