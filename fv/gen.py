"""Generators: configurations, forests, masks, and construction of real tracks objects."""

from __future__ import annotations

import random
from dataclasses import asdict, dataclass, field
from typing import Any

import networkx as nx
import numpy as np

from . import oracles

FRAME_2D = (12, 12)
FRAME_3D = (5, 7, 7)
OPTIONAL_SEG_FEATURES = ["iou", "perimeter", "circularity", "ellipse_axis_radii"]


@dataclass
class Config:
    ndim: int = 3  # 3 = 2D+t, 4 = 3D+t
    seg: bool = True
    scale: str = "none"  # none | ones | aniso
    pos_mode: str = "single"  # single | axes (axes only without segmentation)
    build: str = "noids"  # noids | ids_fd | df
    extra: tuple = ()  # optional features enabled after construction
    T: int = 5
    max_per_frame: int = 3
    id_kind: str = "contig"  # contig | sparse
    skip_prob: float = 0.2
    seed: int = 0
    custom: bool = False  # register a custom node feature "score" and edge feature "weight"
    thick: bool = False  # 3-D masks that contain a 2x2x2 cube (needed for 3-D ellipse axes)
    big: bool = False  # arrays longer than one storage chunk (64) along time and y
    p_empty: float = 0.15  # probability that a frame has no detection
    npint: bool = False  # ids / times stored and passed as numpy integers (as a GUI does)
    rename: tuple = ()  # (old_key, new_key) pairs of annotator features renamed after build
    seg_dtype: str = "int64"  # dtype of the label array (napari layers use all of these)
    int_axis0: bool = False  # without segmentation: the first position axis holds Python ints
    custom_annotator: bool = False  # a user-written annotator appended to tracks.annotators
    seg_layout: str = "C"  # C | F (Fortran order) | view (every second column of a wider array)
    p_root: float = 0.2  # probability that a detection starts a new lineage (1.0: no edges)

    def to_json(self):
        d = asdict(self)
        d["extra"] = list(self.extra)
        d["rename"] = [list(x) for x in self.rename]
        return d

    @staticmethod
    def from_json(d):
        d = dict(d)
        d["extra"] = tuple(d.get("extra", ()))
        d["rename"] = tuple(tuple(x) for x in d.get("rename", ()))
        return Config(**d)

    def scale_list(self):
        n = self.ndim
        if self.scale == "none":
            return None
        if self.scale == "ones":
            return [1.0] * n
        if self.scale == "tscale":  # a time scale other than 1 (must not enter any measure)
            return [5.0, 0.5, 2.0] if n == 3 else [3.0, 2.0, 1.0, 0.5]
        return [1.0, 2.0, 0.5] if n == 3 else [1.0, 3.0, 2.0, 0.5]

    def frame_shape(self):
        if self.big:
            return (66, 4) if self.ndim == 3 else (2, 66, 3)
        return FRAME_2D if self.ndim == 3 else FRAME_3D

    def tag(self):
        return (
            f"{self.ndim - 1}D/{'seg' if self.seg else 'noseg'}/{self.scale}/{self.pos_mode}/"
            f"{self.build}"
        )


def random_config(rng: random.Random, *, seg=None, ndim=None, allow3d_shape=True,
                  builds=("noids", "ids_fd", "df", "from_tracks"), extras=True, p3d=0.25,
                  ellipse3d=True) -> Config:
    nd = ndim if ndim is not None else (4 if rng.random() < p3d else 3)
    sg = seg if seg is not None else (rng.random() < 0.6)
    scale = rng.choice(["none", "ones", "aniso", "aniso", "tscale"])
    pos_mode = "single" if sg else rng.choice(["single", "single", "axes"])
    build = rng.choice(list(builds))
    if pos_mode == "axes" and build == "df":
        build = "noids"
    extra: list[str] = []
    if sg and extras:
        for k in OPTIONAL_SEG_FEATURES:
            if rng.random() < (0.5 if k == "iou" else 0.3):
                if scale in ("aniso", "tscale") and nd == 3 and k in ("perimeter",
                                                                         "circularity"):
                    continue  # scikit-image: NotImplementedError for 2-D anisotropic perimeter
                if nd == 4 and k in ("perimeter", "circularity") and not allow3d_shape:
                    continue
                if nd == 4 and k == "ellipse_axis_radii" and not ellipse3d:
                    # (before fix 754c0d9 the library's 3-D inertia-tensor code raised 'math
                    # domain error' on flat / collinear masks; callers may still opt out)
                    continue
                extra.append(k)
    cfg = Config(
        ndim=nd,
        seg=sg,
        scale=scale,
        pos_mode=pos_mode,
        build=build,
        extra=tuple(extra),
        T=rng.choice([1, 2, 3, 4, 5, 6, 7, 3, 4, 5, 6, 7]),
        seg_dtype=rng.choice(["int64", "int64", "int32", "uint16", "uint32", "uint64"]),
        max_per_frame=rng.choice([2, 3, 3, 4]),
        # (ids in the millions only without a label image: scikit-image's regionprops
        # allocates one slot per label value, which makes every measurement crawl)
        id_kind=rng.choice(["contig", "sparse"] if sg
                           else ["contig", "sparse", "zero", "huge"]),
        skip_prob=rng.choice([0.0, 0.2, 0.2, 0.5]),
        seed=rng.randrange(1 << 30),
        custom=rng.random() < 0.4,
        # masks that contain a 2x2x2 cube and then grow: concave, with bounding boxes that
        # overlap those of their neighbours
        thick=(nd == 4 and sg and rng.random() < 0.5),
        npint=rng.random() < 0.2,
        seg_layout=rng.choice(["C", "C", "C", "F", "view"]) if sg else "C",
        int_axis0=(not sg and rng.random() < 0.25),
        rename=tuple(r for r in (("iou", "overlap"), ("area", "size"))
                     if sg and rng.random() < 0.15 and (r[0] != "iou" or "iou" in extra)),
    )
    if cfg.id_kind == "huge" and cfg.seg_dtype == "uint16":
        cfg.seg_dtype = "uint32"  # the labels must fit the dtype
    if cfg.build == "from_tracks" and cfg.seed % 5 == 0:
        # an annotation started from nothing: a plain Tracks object without detections is
        # converted to a solution, everything is added by user actions afterwards
        cfg.max_per_frame = 0
    return cfg


def big_config(rng: random.Random, seg=True) -> Config:
    """A movie longer than one storage chunk (64 frames; rows > 64 as well) with few
    detections, several of them beyond frame 64."""
    cfg = random_config(rng, seg=seg, extras=False, p3d=0.3)
    cfg.big = True
    cfg.thick = False
    cfg.T = rng.randint(66, 72)
    cfg.max_per_frame = rng.choice([1, 2])
    cfg.p_empty = rng.choice([0.6, 0.8])
    cfg.skip_prob = 0.1
    return cfg


# ----------------------------------------------------------------------------- forests
@dataclass
class Forest:
    times: dict[int, int]
    edges: list[tuple[int, int]]
    T: int

    def parent(self):
        return {v: u for u, v in self.edges}


def random_forest(rng: random.Random, T: int, max_per_frame: int, id_kind: str = "contig",
                  skip_prob: float = 0.2, min_nodes: int = 0, p_empty: float = 0.15,
                  p_root: float = 0.2) -> Forest:
    counts = []
    for _ in range(T):
        counts.append(0 if (max_per_frame <= 0 or rng.random() < p_empty)
                      else rng.randint(1, max_per_frame))
    while max_per_frame > 0 and sum(counts) < min_nodes:
        counts[rng.randrange(T)] += 1
    n = sum(counts)
    if id_kind == "sparse":
        ids = sorted(rng.sample(range(1, 4 * n + 20), n))
        rng.shuffle(ids)
    elif id_kind == "huge":
        # ids that encode the frame (frame * 1_000_000 + k): far apart and sparse
        ids = [1_000_000 * (i % 7 + 1) + rng.randrange(1, 5000) + i for i in range(n)]
        rng.shuffle(ids)
        ids = list(dict.fromkeys(ids))
        while len(ids) < n:
            ids.append(max(ids) + 1)
    elif id_kind == "zero":
        # ids that include 0 (legal without a label image: trackers that number spots
        # from 0, candidate-graph style ids); 0 is a random node, often an ancestor
        ids = list(range(0, n))
        if rng.random() < 0.5:
            rng.shuffle(ids)
    else:
        ids = list(range(1, n + 1))
    times: dict[int, int] = {}
    by_frame: dict[int, list[int]] = {t: [] for t in range(T)}
    it = iter(ids)
    for t, c in enumerate(counts):
        for _ in range(c):
            i = next(it)
            times[i] = t
            by_frame[t].append(i)
    edges: list[tuple[int, int]] = []
    outdeg = {i: 0 for i in times}
    for t in range(1, T):
        for v in by_frame[t]:
            if rng.random() < p_root:
                continue  # root
            # candidate parents: previous non-empty frame, or (skip) any earlier frame
            if rng.random() < skip_prob:
                cands = [u for u in times if times[u] < t and outdeg[u] < 2]
            else:
                tp = t - 1
                while tp >= 0 and not by_frame[tp]:
                    tp -= 1
                cands = [u for u in by_frame.get(tp, []) if outdeg[u] < 2] if tp >= 0 else []
            if not cands:
                continue
            # prefer parents with no child yet, so that divisions are the minority
            free = [u for u in cands if outdeg[u] == 0]
            u = rng.choice(free) if free and rng.random() < 0.7 else rng.choice(cands)
            edges.append((u, v))
            outdeg[u] += 1
    if id_kind == "zero" and 0 in times and outdeg.get(0, 0) == 0 and rng.random() < 0.85:
        # let node 0 be a parent (an ancestor of something) whenever the forest has one
        ps = [u for u in times if outdeg[u] > 0]
        if ps:
            u = rng.choice(ps)
            sw = {0: u, u: 0}
            times = {sw.get(n, n): t for n, t in times.items()}
            edges = [(sw.get(a, a), sw.get(b, b)) for a, b in edges]
    return Forest(times, edges, T)


# ----------------------------------------------------------------------------- masks
def grow_blob(rng: random.Random, occupied: np.ndarray, size: int, start=None):
    """Random-walk blob on free cells of one frame; returns list of coordinate tuples."""
    shape = occupied.shape
    free = np.argwhere(~occupied)
    if len(free) == 0:
        return []
    if start is None:
        start = tuple(int(x) for x in free[rng.randrange(len(free))])
    if occupied[start]:
        return []
    cells = [start]
    seen = {start}
    tries = 0
    while len(cells) < size and tries < size * 8:
        tries += 1
        base = rng.choice(cells)
        ax = rng.randrange(len(shape))
        step = rng.choice([-1, 1])
        nxt = list(base)
        nxt[ax] += step
        nxt = tuple(nxt)
        if any(c < 0 or c >= s for c, s in zip(nxt, shape)):
            continue
        if nxt in seen or occupied[nxt]:
            continue
        seen.add(nxt)
        cells.append(nxt)
    return cells


def thick_blob(rng, occupied):
    """3-D blob that contains a full 2x2x2 cube (so that no principal moment of inertia
    vanishes) and then grows by a random walk - concave shapes whose bounding boxes
    overlap those of their neighbours are frequent."""
    shape = occupied.shape
    for _ in range(60):
        lo = [rng.randrange(s - 1) for s in shape]
        sl = tuple(slice(l, l + 2) for l in lo)
        if occupied[sl].any():
            continue
        cube = [tuple(int(x) for x in (np.array(i) + np.array(lo)))
                for i in np.argwhere(np.ones((2,) * len(shape), bool))]
        occ2 = occupied.copy()
        occ2[sl] = True
        extra = []
        seen = set(cube)
        for _ in range(rng.choice([0, 2, 5, 9]) * 4):
            base = rng.choice(cube + extra)
            ax = rng.randrange(len(shape))
            nxt = list(base)
            nxt[ax] += rng.choice([-1, 1])
            nxt = tuple(nxt)
            if any(c < 0 or c >= s for c, s in zip(nxt, shape)) or nxt in seen or occ2[nxt]:
                continue
            seen.add(nxt)
            extra.append(nxt)
        return cube + extra
    return []


def make_segmentation(rng: random.Random, forest: Forest, frame_shape, dtype=np.int64,
                      convexish: bool = False, thick: bool = False):
    seg = np.zeros((forest.T, *frame_shape), dtype=dtype)
    for n, t in forest.times.items():
        occ = seg[t] != 0
        if thick:
            cells = thick_blob(rng, occ)
        elif convexish:
            cells = box_blob(rng, occ)
        else:
            cells = grow_blob(rng, occ, rng.choice([1, 2, 4, 6, 9, 12]))
        if not cells:
            # frame is full: steal one cell from background-free frame is impossible;
            # generators keep counts low enough that this does not happen
            raise RuntimeError("no room for mask")
        idx = tuple(np.array([c[d] for c in cells]) for d in range(len(frame_shape)))
        seg[t][idx] = n
    return seg


def box_blob(rng, occupied):
    """Small axis-aligned box on free cells (centroid inside the mask)."""
    shape = occupied.shape
    for _ in range(50):
        lo = [rng.randrange(s) for s in shape]
        ext = [rng.choice([1, 2, 3]) for _ in shape]
        sl = tuple(slice(l, min(l + e, s)) for l, e, s in zip(lo, ext, shape))
        if not occupied[sl].any():
            base = np.array([s.start for s in sl])
            idx = np.argwhere(np.ones([s.stop - s.start for s in sl], bool))
            return [tuple(int(x) for x in (i + base)) for i in idx]
    return grow_blob(rng, occupied, 1)


# ----------------------------------------------------------------------------- tracks
TIME_KEYS = {"noids": "time", "ids_fd": "t", "df": "time", "from_tracks": "time"}


def build_graph(cfg: Config, forest: Forest, rng: random.Random, with_ids: bool,
                time_key: str) -> nx.DiGraph:
    g = nx.DiGraph()
    shape = cfg.frame_shape()
    axes = ["z", "y", "x"] if cfg.ndim == 4 else ["y", "x"]
    tid = lid = None
    if with_ids:
        segs = sorted(oracles.segment_partition(forest.times, forest.edges), key=min)
        comps = sorted(oracles.component_partition(forest.times, forest.edges), key=min)
        # arbitrary, non-contiguous but valid ids
        top = rng.choice([3 * len(segs) + 5, 3 * len(segs) + 5, 1200])  # also ids > 255
        lo = 0 if rng.random() < 0.4 else 1  # existing ids may be 0-based
        tids = rng.sample(range(lo, top), len(segs))
        lids = rng.sample(range(lo, max(top, 3 * len(comps) + 5)), len(comps))
        if lo == 0 and tids and 0 not in tids and rng.random() < 0.7:
            tids[rng.randrange(len(tids))] = 0
        if lo == 0 and lids and 0 not in lids and rng.random() < 0.7:
            lids[rng.randrange(len(lids))] = 0
        tid = {n: tids[i] for i, c in enumerate(segs) for n in c}
        lid = {n: lids[i] for i, c in enumerate(comps) for n in c}
    npi = (lambda x: np.int64(x)) if cfg.npint else (lambda x: x)
    order = list(forest.times.items())
    if cfg.seed % 5 < 2:
        rng.shuffle(order)  # e.g. built from an unsorted detection table
    for n, t in order:
        attrs: dict[str, Any] = {time_key: npi(t)}
        if not cfg.seg:
            pos = [round(rng.uniform(0, s - 1), 3) for s in shape]
            if cfg.int_axis0:
                pos[0] = int(pos[0])  # e.g. a z-plane index next to sub-pixel y / x
            if cfg.pos_mode == "axes":
                for a, p in zip(axes, pos):
                    attrs[a] = p
            else:
                attrs["pos"] = pos
        if with_ids:
            attrs["track_id"] = npi(tid[n])
            attrs["lineage_id"] = npi(lid[n])
        g.add_node(n, **attrs)
    es = list(forest.edges)
    if cfg.seed % 5 < 2:
        rng.shuffle(es)
    g.add_edges_from(es)
    return g


def build_tracks(cfg: Config):
    """Return (tracks, forest, rng) for a configuration; deterministic in cfg.seed."""
    from funtracks.data_model import SolutionTracks
    from funtracks.features import (
        Area,
        FeatureDict,
        LineageID,
        Position,
        Time,
        TrackletID,
    )

    rng = random.Random(cfg.seed)
    forest = random_forest(rng, cfg.T, cfg.max_per_frame, cfg.id_kind, cfg.skip_prob,
                           p_empty=cfg.p_empty, p_root=cfg.p_root)
    seg = make_segmentation(rng, forest, cfg.frame_shape(), thick=cfg.thick,
                            dtype=np.dtype(cfg.seg_dtype)) if cfg.seg else None
    if seg is not None and cfg.seg_layout == "F":
        seg = np.asfortranarray(seg)
    elif seg is not None and cfg.seg_layout == "view":
        wide = np.zeros((*seg.shape[:-1], seg.shape[-1] * 2), dtype=seg.dtype)
        wide[..., ::2] = seg
        seg = wide[..., ::2]  # a channel / crop of a larger array: not contiguous
    scale = cfg.scale_list()
    axes = ["z", "y", "x"] if cfg.ndim == 4 else ["y", "x"]
    build = cfg.build
    if build == "df" and (len(forest.times) == 0):
        build = "noids"  # an empty table cannot be imported
    if build in ("noids", "from_tracks"):
        g = build_graph(cfg, forest, rng, with_ids=False, time_key="time")
        pos_attr = axes if cfg.pos_mode == "axes" else None
        if build == "from_tracks":
            # a plain Tracks object (candidate-graph style, no ids) converted to a solution
            from funtracks.data_model import Tracks

            if cfg.seed % 4 == 0 and g.number_of_nodes() >= 2:
                # an older solution that was extended by hand: only the first nodes carry
                # (valid) ids, the rest none - everything has to be recomputed
                first = list(g.nodes)[: max(1, g.number_of_nodes() // 2)]
                for i_, n_ in enumerate(first):
                    g.nodes[n_]["track_id"] = 500 + i_
                    g.nodes[n_]["lineage_id"] = 700 + i_

            plain = Tracks(g, segmentation=seg, pos_attr=pos_attr, scale=scale, ndim=cfg.ndim)
            tracks = SolutionTracks.from_tracks(plain)
        else:
            tracks = SolutionTracks(g, segmentation=seg, pos_attr=pos_attr, scale=scale,
                                    ndim=cfg.ndim)
    elif build == "ids_fd":
        g = build_graph(cfg, forest, rng, with_ids=True, time_key="t")
        feats: dict[str, Any] = {"t": Time()}
        if cfg.seg:
            # values are computed with an auxiliary object first, as a loader would have
            aux = SolutionTracks(g, segmentation=seg, time_attr="t", scale=scale,
                                 ndim=cfg.ndim)
            g = aux.graph
            feats["pos"] = Position(axes=axes)
            feats["area"] = Area(ndim=cfg.ndim)
            pos_key: Any = "pos"
        elif cfg.pos_mode == "axes":
            for a in axes:
                feats[a] = {"feature_type": "node", "value_type": "float", "num_values": 1,
                            "required": True, "default_value": None}
            pos_key = list(axes)
        else:
            feats["pos"] = Position(axes=axes)
            pos_key = "pos"
        feats["track_id"] = TrackletID()
        feats["lineage_id"] = LineageID()
        fd = FeatureDict(features=feats, time_key="t", position_key=pos_key,
                         tracklet_key="track_id", lineage_key="lineage_id")
        tracks = SolutionTracks(g, segmentation=seg, scale=scale, ndim=cfg.ndim, features=fd)
    elif build == "df":
        import pandas as pd

        from funtracks.import_export import tracks_from_df

        parent = forest.parent()
        rows = []
        for n, t in forest.times.items():
            row: dict[str, Any] = {"time": t, "id": n, "parent_id": parent.get(n, -1)}
            if cfg.seg:
                # no position columns: the importer then computes pos from the masks
                row["seg_id"] = n
            else:
                c = [round(rng.uniform(0, s - 1), 3) for s in cfg.frame_shape()]
                for a, p in zip(axes, c):
                    row[a] = p
            rows.append(row)
        df = pd.DataFrame(rows)
        nm: dict[str, Any] = {"time": "time", "id": "id", "parent_id": "parent_id"}
        feats = None
        if cfg.seg:
            nm["seg_id"] = "seg_id"
            if cfg.seed % 3 == 0:
                # the table also carries a (stale) area column that is mapped, and the
                # caller asks for the measurement to be recomputed from the masks
                df["area"] = [1000.0 + i for i in range(len(df))]
                nm["area"] = "area"
                feats = {"Area": "Recompute"}
        else:
            nm["pos"] = list(axes)
        tracks = tracks_from_df(df, segmentation=seg, scale=scale, node_name_map=nm,
                                features=feats)
    else:
        raise ValueError(build)
    if cfg.extra and cfg.seed % 2:
        tracks.enable_features(list(cfg.extra))  # several features in one call
    else:
        for k in cfg.extra:
            tracks.enable_features([k])
    if cfg.rename:
        # features stored under other keys (what an importer does when the user maps a
        # computed feature to another name)
        from funtracks.import_export._utils import rename_feature

        for old, new in cfg.rename:
            if old in tracks.annotators.features:
                rename_feature(tracks, old, new)
                tracks.enable_features([new])
    if cfg.custom_annotator:
        tracks.annotators.append(make_child_count_annotator(tracks))
    if cfg.custom:
        # registered custom (static) features, as an importer registers loaded columns
        from funtracks.features import Feature

        tracks.features["score"] = Feature(feature_type="node", value_type="float",
                                           num_values=1, display_name="score",
                                           required=False, default_value=None)
        tracks.features["weight"] = Feature(feature_type="edge", value_type="float",
                                            num_values=1, display_name="weight",
                                            required=False, default_value=None)
        tracks.features["tag"] = Feature(feature_type="node", value_type="str",
                                         num_values=1, display_name="tag",
                                         required=False, default_value=None)
        tracks.features["ok"] = Feature(feature_type="node", value_type="bool",
                                        num_values=1, display_name="ok",
                                        required=False, default_value=None)
        tracks.features["drift"] = Feature(feature_type="node", value_type="float",
                                           num_values=2, display_name="drift",
                                           value_names=("drift_y", "drift_x"),  # a tuple
                                           required=False, default_value=None)
        for n in tracks.graph.nodes:
            if rng.random() < 0.5:
                tracks.graph.nodes[n]["drift"] = [round(rng.random(), 2), round(rng.random(), 2)]
        for n in tracks.graph.nodes:
            if rng.random() < 0.7:
                tracks.graph.nodes[n]["tag"] = rng.choice(["a", "bb", ""])
            if rng.random() < 0.7:
                tracks.graph.nodes[n]["ok"] = rng.random() < 0.5
        for n in tracks.graph.nodes:
            if rng.random() < 0.8:
                tracks.graph.nodes[n]["score"] = rng.choice([0.0, round(rng.random(), 3)])
        for e in tracks.graph.edges:
            if rng.random() < 0.8:
                tracks.graph.edges[e]["weight"] = rng.choice([0.0, 0, round(rng.random(), 3)])
    return tracks, forest, rng


def make_child_count_annotator(tracks):
    """A minimal user-written annotator (the documented extension path: subclass
    GraphAnnotator, append an instance to tracks.annotators): node feature 'n_children'."""
    from funtracks.annotators._graph_annotator import GraphAnnotator
    from funtracks.features import Feature

    class ChildCount(GraphAnnotator):
        KEY = "n_children"

        def __init__(self, tr):
            super().__init__(tr, {self.KEY: Feature(
                feature_type="node", value_type="int", num_values=1,
                display_name="children", required=False, default_value=None)})

        def compute(self, feature_keys=None):
            if self.KEY not in self._filter_feature_keys(feature_keys):
                return
            for n in self.tracks.graph.nodes:
                self.tracks._set_node_attr(n, self.KEY, self.tracks.graph.out_degree(n))

        def update(self, action):
            if self.KEY in self.features:
                self.compute()

    return ChildCount(tracks)
