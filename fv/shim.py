"""Instrumentation shim: wraps methods of the real classes at run time (no source hooks).

Events are recorded at the client boundary: a call event before the constructor of a
user action / undo / redo is invoked, a return event after it returned or raised.
Internal observation points (history registration, refresh emissions, primitive
applications, nested constructors) are recorded with the nesting depth at which they
occurred.
"""

from __future__ import annotations

import functools
import traceback
from typing import Any

_installed = False
REC: "Recorder"


class Recorder:
    def __init__(self):
        self.reset()
        self.entries: dict[str, int] = {}

    def reset(self):
        self.events: list[tuple] = []
        self.depth = 0

    def mark(self) -> int:
        return len(self.events)

    def window(self, start: int) -> list[tuple]:
        return self.events[start:]


REC = Recorder()

# Observers (used by the pytest-plugin workload): objects with before(name, obj, args, kwargs)
# -> token and after(name, token, exc, ret); called around *top-level* calls only (depth 1).
OBSERVERS: list = []


def _before(name, obj, a, k):
    toks = []
    for o in OBSERVERS:
        try:
            toks.append((o, o.before(name, obj, a, k)))
        except Exception:
            toks.append((o, None))
            o.errors = getattr(o, "errors", 0) + 1
    return toks


def _after(name, toks, exc, ret):
    for o, t in toks:
        if t is None:
            continue
        try:
            o.after(name, t, exc, ret)
        except Exception:
            o.errors = getattr(o, "errors", 0) + 1

USER_CLASSES = [
    "UserAddNode",
    "UserAddEdge",
    "UserDeleteEdge",
    "UserDeleteNode",
    "UserSwapPredecessors",
    "UserUpdateSegmentation",
    "UserUpdateNodeAttrs",
]


def _innermost_site(tb) -> str:
    site = "?"
    for fr in traceback.extract_tb(tb):
        if "/funtracks/" in fr.filename:
            site = fr.filename.split("/funtracks/")[-1] + ":" + str(fr.lineno)
    return site


def install():
    """Patch the classes (idempotent). Patching happens on the class objects, so every
    module that imported the names sees the wrappers."""
    global _installed
    if _installed:
        return
    import funtracks.user_actions as ua
    from funtracks.actions.action_history import ActionHistory
    from funtracks.data_model.tracks import Tracks

    for name in USER_CLASSES:
        cls = getattr(ua, name)
        orig = cls.__init__

        def make(orig, name):
            @functools.wraps(orig)
            def wrapped(self, *a, **k):
                REC.entries[name] = REC.entries.get(name, 0) + 1
                REC.depth += 1
                d = REC.depth
                toks = _before(name, self, a, k) if d == 1 and OBSERVERS else ()
                REC.events.append(("enter", name, d))
                try:
                    orig(self, *a, **k)
                except BaseException as e:
                    REC.events.append(
                        ("raise", name, d, type(e).__name__,
                         bool(getattr(e, "forceable", False)), _innermost_site(e.__traceback__))
                    )
                    REC.depth -= 1
                    if toks:
                        _after(name, toks, e, None)
                    REC.depth += 1
                    raise
                else:
                    REC.events.append(("exit", name, d))
                    if toks:
                        REC.depth -= 1
                        _after(name, toks, None, None)
                        REC.depth += 1
                finally:
                    REC.depth -= 1

            return wrapped

        cls.__init__ = make(orig, name)

    for meth in ("undo", "redo"):
        orig = getattr(Tracks, meth)

        def make2(orig, meth):
            @functools.wraps(orig)
            def wrapped(self):
                REC.entries[meth] = REC.entries.get(meth, 0) + 1
                REC.depth += 1
                d = REC.depth
                toks = _before(meth, self, (), {}) if d == 1 and OBSERVERS else ()
                REC.events.append(("enter", meth, d))
                try:
                    r = orig(self)
                except BaseException as e:
                    REC.events.append(("raise", meth, d, type(e).__name__, False,
                                       _innermost_site(e.__traceback__)))
                    REC.depth -= 1
                    if toks:
                        _after(meth, toks, e, None)
                    REC.depth += 1
                    raise
                else:
                    REC.events.append(("exit", meth, d, r))
                    if toks:
                        REC.depth -= 1
                        _after(meth, toks, None, r)
                        REC.depth += 1
                    return r
                finally:
                    REC.depth -= 1

            return wrapped

        setattr(Tracks, meth, make2(orig, meth))

    orig_add = ActionHistory.add_new_action

    @functools.wraps(orig_add)
    def add_new_action(self, action):
        REC.events.append(("history", type(action).__name__, REC.depth))
        return orig_add(self, action)

    ActionHistory.add_new_action = add_new_action

    orig_notify = Tracks.notify_annotators

    @functools.wraps(orig_notify)
    def notify_annotators(self, action):
        REC.events.append(("prim", type(action).__name__, REC.depth))
        return orig_notify(self, action)

    Tracks.notify_annotators = notify_annotators
    _installed = True


def attach(tracks) -> None:
    """Replace whatever is connected to tracks.refresh by a fresh recorder slot
    (deepcopy copies connected slots, so copies must be re-attached)."""
    try:
        tracks.refresh.disconnect()
    except Exception:
        pass

    def slot(*args):
        REC.events.append(("emit", REC.depth, args[0] if args else None, len(args)))

    tracks._fv_slot = slot  # keep a strong reference
    tracks.refresh.connect(slot)


def attach_keep(tracks) -> None:
    """Connect a recorder slot without touching the slots that are already connected
    (pytest-plugin workload: the tests' own slots must keep working)."""
    if getattr(tracks, "_fv_slot", None) is not None:
        return

    def slot(*args):
        REC.events.append(("emit", REC.depth, args[0] if args else None, len(args), id(tracks)))

    tracks._fv_slot = slot
    tracks.refresh.connect(slot)


# ------------------------------------------------------------------ window summaries
def summarize(window: list[tuple]) -> dict[str, Any]:
    prims = tuple(e[1] for e in window if e[0] == "prim")
    nested = tuple(e[1] for e in window if e[0] == "enter" and e[2] >= 2)
    emits = [e for e in window if e[0] == "emit"]
    hist = [e for e in window if e[0] == "history"]
    maxdepth = max([e[2] for e in window if e[0] == "enter"] or [0])
    return {
        "prims": prims,
        "nested": nested,
        "emits": emits,
        "history": hist,
        "maxdepth": maxdepth,
    }
