"""Independent reference computations. Nothing here calls the funtracks mechanism it
judges: own union-find, plain numpy for masks, brute force for neighbours, a
list-plus-cursor model for the history."""

from __future__ import annotations

import math
from collections import defaultdict
from typing import Any, Iterable

import numpy as np


# ----------------------------------------------------------------------------- partitions
class UF:
    def __init__(self, items: Iterable[Any]):
        self.p = {x: x for x in items}

    def find(self, x):
        p = self.p
        while p[x] != x:
            p[x] = p[p[x]]
            x = p[x]
        return x

    def union(self, a, b):
        ra, rb = self.find(a), self.find(b)
        if ra != rb:
            self.p[ra] = rb

    def classes(self) -> frozenset:
        d = defaultdict(set)
        for x in self.p:
            d[self.find(x)].add(x)
        return frozenset(frozenset(s) for s in d.values())


def segment_partition(nodes: Iterable[int], edges: Iterable[tuple[int, int]]) -> frozenset:
    """Maximal unbranched segments: join u,v along (u,v) iff u has exactly one child."""
    nodes = list(nodes)
    edges = list(edges)
    outdeg = defaultdict(int)
    for u, _ in edges:
        outdeg[u] += 1
    uf = UF(nodes)
    for u, v in edges:
        if outdeg[u] == 1:
            uf.union(u, v)
    return uf.classes()


def component_partition(nodes: Iterable[int], edges: Iterable[tuple[int, int]]) -> frozenset:
    uf = UF(list(nodes))
    for u, v in edges:
        uf.union(u, v)
    return uf.classes()


def label_partition(labels: dict[int, Any]) -> frozenset:
    d = defaultdict(set)
    for n, l in labels.items():
        d[l].add(n)
    return frozenset(frozenset(s) for s in d.values())


def partition_mismatch(ref: frozenset, labels: dict[int, Any]) -> list[str]:
    """Explain how a labelling differs from a reference partition (both directions)."""
    out = []
    if any(l is None for l in labels.values()):
        out.append(f"nodes without id: {sorted(n for n, l in labels.items() if l is None)}")
    cls_of = {}
    for i, c in enumerate(sorted(ref, key=lambda s: min(s))):
        for n in c:
            cls_of[n] = i
    by_label = defaultdict(set)
    for n, l in labels.items():
        by_label[l].add(n)
    for l, ns in sorted(by_label.items(), key=lambda kv: repr(kv[0])):
        cs = {cls_of[n] for n in ns}
        if len(cs) > 1:
            out.append(f"id {l!r} spans {len(cs)} different classes: nodes {sorted(ns)}")
    for c in ref:
        ls = {labels[n] for n in c}
        if len(ls) > 1:
            out.append(f"class {sorted(c)} carries several ids {sorted(ls, key=repr)}")
    return out


# ----------------------------------------------------------------------------- structure
def forest_problems(times: dict[int, int], edges: Iterable[tuple[int, int]]) -> list[str]:
    indeg, outdeg = defaultdict(int), defaultdict(int)
    out = []
    for u, v in edges:
        indeg[v] += 1
        outdeg[u] += 1
        if not (times[u] < times[v]):
            out.append(f"non-forward edge ({u}@t{times[u]} -> {v}@t{times[v]})")
    for n, d in indeg.items():
        if d > 1:
            out.append(f"node {n} has {d} parents")
    for n, d in outdeg.items():
        if d > 2:
            out.append(f"node {n} has {d} children")
    return out


def ancestors_closure(parent: dict[int, int | None], sel: Iterable[int]) -> set[int]:
    out = set()
    for n in sel:
        while n is not None and n not in out:
            out.add(n)
            n = parent.get(n)
    return out


# ----------------------------------------------------------------------------- masks
def mask_of(seg: np.ndarray, t: int, label: int) -> np.ndarray:
    return np.asarray(seg[t]) == label


def ref_area(seg, t, label, scale) -> float:
    cnt = int(mask_of(seg, t, label).sum())
    vox = 1.0
    if scale is not None:
        for s in list(scale)[1:]:
            vox *= float(s)
    return cnt * vox


def ref_centroid(seg, t, label, scale) -> list[float] | None:
    idx = np.nonzero(mask_of(seg, t, label))
    if len(idx[0]) == 0:
        return None
    sc = [1.0] * len(idx) if scale is None else [float(s) for s in list(scale)[1:]]
    return [float(np.mean(ax)) * s for ax, s in zip(idx, sc)]


def ref_iou(seg, tu, u, tv, v) -> float:
    a = mask_of(seg, tu, u)
    b = mask_of(seg, tv, v)
    union = int(np.logical_or(a, b).sum())
    if union == 0:
        return 0.0
    return int(np.logical_and(a, b).sum()) / union


def close(a, b, rel=1e-9, abs_=1e-12) -> bool:
    if a is None or b is None:
        return a is None and b is None
    if isinstance(a, (list, tuple, np.ndarray)) or isinstance(b, (list, tuple, np.ndarray)):
        try:
            if len(a) != len(b):
                return False
        except TypeError:
            return False
        return all(close(x, y, rel, abs_) for x, y in zip(a, b))
    try:
        a = float(a)
        b = float(b)
    except (TypeError, ValueError):
        return a == b
    if math.isnan(a) or math.isnan(b):
        return math.isnan(a) and math.isnan(b)
    if math.isinf(a) or math.isinf(b):
        return a == b
    return abs(a - b) <= max(abs_, rel * max(abs(a), abs(b)))


# ----------------------------------------------------------------------------- history
class Timeline:
    """Linear never-forgetting timeline (the GURQ model) over opaque states."""

    def __init__(self, initial):
        self.states = [initial]
        self.cursor = 0

    @property
    def current(self):
        return self.states[self.cursor]

    def can_undo(self):
        return self.cursor > 0

    def can_redo(self):
        return self.cursor < len(self.states) - 1

    def undo(self):
        if not self.can_undo():
            return False
        self.cursor -= 1
        return True

    def redo(self):
        if not self.can_redo():
            return False
        self.cursor += 1
        return True

    def edit(self, new_state):
        # undone steps stay on the timeline: walked back in reverse, then the new state
        tail = self.states[self.cursor : len(self.states) - 1]
        self.states.extend(reversed(tail))
        self.states.append(new_state)
        self.cursor = len(self.states) - 1

    def shape(self):
        return (len(self.states), self.cursor)
