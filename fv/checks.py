"""State invariants evaluated on a live tracks object at quiescent points.
Each function returns a list of (clause, message); empty list = holds."""

from __future__ import annotations

import copy
import warnings

import numpy as np

from . import oracles as O
from .ops import node_time


def graph_view(tracks):
    g = tracks.graph
    times = {int(n): node_time(tracks, n) for n in g.nodes}
    edges = [(int(u), int(v)) for u, v in g.edges]
    return times, edges


# C03
def forest(tracks):
    times, edges = graph_view(tracks)
    return [("forest", m) for m in O.forest_problems(times, edges)]


# C04
def track_partition(tracks):
    times, edges = graph_view(tracks)
    labels = {n: tracks.get_track_id(n) for n in times}
    ref = O.segment_partition(times, edges)
    if O.label_partition(labels) == ref and not any(v is None for v in labels.values()):
        return []
    return [("track-partition", m) for m in O.partition_mismatch(ref, labels)] or [
        ("track-partition", "partition differs")
    ]


# C05
def lineage_partition(tracks):
    times, edges = graph_view(tracks)
    labels = {n: tracks.get_lineage_id(n) for n in times}
    ref = O.component_partition(times, edges)
    if O.label_partition(labels) == ref and not any(v is None for v in labels.values()):
        return []
    return [("lineage-partition", m) for m in O.partition_mismatch(ref, labels)] or [
        ("lineage-partition", "partition differs")
    ]


# C06
def lookups(tracks, T: int, queries: bool = True):
    """queries=False: only the read-only comparison of the two lookup tables with a scan
    (the query battery calls get_track_neighbors, which may re-order or re-build internal
    state and thereby repair what it is about to judge)."""
    out = []
    g = tracks.graph
    times, _ = graph_view(tracks)
    ta = tracks.track_annotator
    ref_t: dict[int, list[int]] = {}
    ref_l: dict[int, list[int]] = {}
    for n in times:
        ref_t.setdefault(tracks.get_track_id(n), []).append(n)
        ref_l.setdefault(tracks.get_lineage_id(n), []).append(n)
    got_t = {k: sorted(int(x) for x in v) for k, v in tracks.track_id_to_node.items() if v}
    if got_t != {k: sorted(v) for k, v in ref_t.items()}:
        out.append(("track-lookup", f"track_id_to_node {got_t} != scan "
                    f"{ {k: sorted(v) for k, v in ref_t.items()} }"))
    got_l = {k: sorted(int(x) for x in v) for k, v in ta.lineage_id_to_nodes.items() if v}
    if got_l != {k: sorted(v) for k, v in ref_l.items()}:
        out.append(("lineage-lookup", f"lineage_id_to_nodes {got_l} != scan "
                    f"{ {k: sorted(v) for k, v in ref_l.items()} }"))
    ncmp = 0
    ids = sorted(k for k in ref_t if k is not None)
    unused = (max(ids) if ids else 0) + 7
    if not queries:
        ids, unused_l = [], []
    else:
        unused_l = [unused]
    # 'track present at time t' is asked for every (track, t) BEFORE any neighbour query:
    # get_track_neighbors sorts the per-track list in place, which would hide an answer that
    # depends on the order in which the list happens to be
    for tid in ids + unused_l:
        members = ref_t.get(tid, [])
        for t in range(-1, T + 1):
            exp_has = any(times[n] == t for n in members)
            got_has = tracks.has_track_id_at_time(tid, t)
            ncmp += 1
            if bool(got_has) != exp_has:
                out.append(("has-track", f"has_track_id_at_time({tid},{t}) = {got_has}, "
                            f"scan {exp_has} (asked before any neighbour query)"))
    for tid in ids + unused_l:
        members = sorted(ref_t.get(tid, []), key=lambda n: times[n])
        for t in range(-1, T + 1):
            before = [n for n in members if times[n] < t]
            after = [n for n in members if times[n] > t]
            bt = max((times[n] for n in before), default=None)
            at = min((times[n] for n in after), default=None)
            cb = [n for n in before if times[n] == bt]
            ca = [n for n in after if times[n] == at]
            got = tracks.get_track_neighbors(tid, t)
            ncmp += 1
            # several nodes of one track in one frame make the scan ambiguous; that only
            # happens in states that already violate C04 and is not judged here
            if len(cb) <= 1 and len(ca) <= 1:
                exp = (cb[0] if cb else None, ca[0] if ca else None)
                if tuple(got) != exp:
                    out.append(("neighbors",
                                f"get_track_neighbors({tid},{t}) = {got}, scan {exp}"))
            exp_has = any(times[n] == t for n in members)
            got_has = tracks.has_track_id_at_time(tid, t)
            ncmp += 1
            if bool(got_has) != exp_has:
                out.append(("has-track", f"has_track_id_at_time({tid},{t}) = {got_has}, "
                            f"scan {exp_has}"))
    # freshness
    nt = tracks.get_next_track_id()
    if nt in ref_t:
        out.append(("fresh-track", f"get_next_track_id() = {nt} is in use"))
    nl = tracks.get_next_lineage_id()
    if nl in ref_l:
        out.append(("fresh-lineage", f"get_next_lineage_id() = {nl} is in use"))
    return out, ncmp


def fresh_node_ids(tracks, n: int):
    """Calls the real _get_new_node_ids (it advances a counter, which is legitimate)."""
    ids = tracks._get_new_node_ids(n)
    out = []
    if len(ids) != n or len(set(ids)) != n:
        out.append(("fresh-node", f"_get_new_node_ids({n}) = {ids}"))
    for i in ids:
        if tracks.graph.has_node(i):
            out.append(("fresh-node", f"_get_new_node_ids issued existing node {i}"))
    return out


# C07
def seg_bijection(tracks):
    out = []
    seg = tracks.segmentation
    if seg is None:
        return out
    times, _ = graph_view(tracks)
    by_t: dict[int, set[int]] = {}
    for n, t in times.items():
        by_t.setdefault(t, set()).add(n)
    for t in range(seg.shape[0]):
        labels = set(int(x) for x in np.unique(seg[t])) - {0}
        nodes = by_t.get(t, set())
        if labels != nodes:
            extra = labels - nodes
            missing = nodes - labels
            if extra:
                out.append(("label-without-node", f"frame {t}: labels {sorted(extra)} "
                            "are not nodes of this frame"))
            if missing:
                out.append(("node-without-pixels", f"frame {t}: nodes {sorted(missing)} "
                            "have no pixel in their frame"))
    for n, t in times.items():
        if not (0 <= t < seg.shape[0]):
            out.append(("node-without-pixels", f"node {n} time {t} outside segmentation"))
            continue
        px = tracks.get_pixels(n)
        exp = np.nonzero(seg[t] == n)
        ok = (
            px is not None
            and len(px) == seg.ndim
            and np.array_equal(np.asarray(px[0]), np.full(len(exp[0]), t))
            and all(np.array_equal(np.asarray(a), b) for a, b in zip(px[1:], exp))
        )
        if not ok:
            out.append(("get-pixels", f"get_pixels({n}) differs from the scan of frame {t}"))
    return out


# C08
def regionprops_values(tracks, fresh_factory=None, only=None):
    """Compare every enabled regionprops feature of every node with (i) plain numpy for
    area/pos and (ii) a from-scratch bulk computation on a copy of the same array."""
    out = []
    ncmp = 0
    seg = tracks.segmentation
    if seg is None:
        return out, ncmp
    from funtracks.annotators import RegionpropsAnnotator

    ann = next((a for a in tracks.annotators if isinstance(a, RegionpropsAnnotator)), None)
    if ann is None:
        return out, ncmp
    enabled = list(ann.features)
    if only is not None:
        enabled = [k for k in enabled if k in only]
    if not enabled:
        return out, ncmp
    times, _ = graph_view(tracks)
    scale = tracks.scale
    for n, t in times.items():
        if ann.area_key in enabled:
            ncmp += 1
            got = tracks.get_node_attr(n, ann.area_key)
            exp = O.ref_area(seg, t, n, scale)
            if not O.close(got, exp):
                out.append(("area", f"node {n}: stored area {got!r}, mask gives {exp!r}"))
        if ann.pos_key in enabled:
            ncmp += 1
            got = tracks.get_node_attr(n, ann.pos_key)
            exp = O.ref_centroid(seg, t, n, scale)
            if not O.close(got, exp, rel=1e-9, abs_=1e-9):
                out.append(("pos", f"node {n}: stored pos {got!r}, mask centroid {exp!r}"))
    shape_keys = [k for k in enabled if k not in (ann.area_key, ann.pos_key)]
    keys = enabled
    if keys:
        # two from-scratch references: the whole frame at once, and every node's own mask
        # alone in an otherwise empty frame ("computed from that node's current mask and
        # the scale alone") - they agree on a correct tree
        for how, fresh in (("frame", scratch_values(tracks, keys)),
                           ("own-mask", scratch_values(tracks, keys, masked=True))):
            for n in times:
                for k in keys:
                    ncmp += 1
                    got = tracks.get_node_attr(n, k)
                    exp = fresh.get(n, {}).get(k)
                    if not O.close(got, exp, rel=1e-9, abs_=1e-9):
                        out.append((k, f"node {n}: stored {k} {got!r}, from scratch "
                                    f"({how}) {exp!r}"))
    return out, ncmp


def scratch_values(tracks, keys, masked: bool = False):
    """Computation by the library's regionprops code on a *copy* of the array (the
    'from-scratch' reference of C08): frame by frame, or (masked) node by node on a frame
    that contains only that node's mask."""
    from funtracks.annotators._regionprops_extended import regionprops_extended

    seg = np.array(tracks.segmentation, copy=True)
    spacing = None if tracks.scale is None else tuple(tracks.scale[1:])
    from funtracks.annotators import RegionpropsAnnotator

    ann = next(a for a in tracks.annotators if isinstance(a, RegionpropsAnnotator))
    names = ann.regionprops_names
    vals: dict[int, dict] = {}
    with warnings.catch_warnings():
        warnings.simplefilter("ignore")
        if masked:
            frames = []
            for t in range(seg.shape[0]):
                for lab in np.unique(seg[t]):
                    if lab != 0:
                        frames.append(np.where(seg[t] == lab, seg[t], 0))
        else:
            frames = [seg[t] for t in range(seg.shape[0])]
        for frame in frames:
            for region in regionprops_extended(frame, spacing=spacing):
                d = {}
                for k in keys:
                    v = getattr(region, names[k])
                    if isinstance(v, tuple):
                        v = list(v)
                    d[k] = v
                vals[int(region.label)] = d
    return vals


def iou_key(tracks):
    """The key under which the edge annotator stores the IoU (it can be renamed)."""
    from funtracks.annotators import EdgeAnnotator

    ann = next((a for a in tracks.annotators if isinstance(a, EdgeAnnotator)), None)
    return getattr(ann, "iou_key", "iou") if ann is not None else "iou"


# C09
def iou_values(tracks):
    out = []
    ncmp = {"skip": 0, "consecutive": 0}
    seg = tracks.segmentation
    ik = iou_key(tracks)
    # "enabled" = listed in the feature registry or active in the annotator (the two agree
    # on a correct tree; a feature that is listed but silently inactive must not escape)
    if seg is None or (ik not in tracks.annotators.features and ik not in tracks.features):
        return out, ncmp
    times, edges = graph_view(tracks)
    for u, v in edges:
        got = tracks.get_edge_attr((u, v), ik)
        exp = O.ref_iou(seg, times[u], u, times[v], v)
        kind = "skip" if times[v] - times[u] != 1 else "consecutive"
        ncmp[kind] += 1
        if got is None or not O.close(got, exp, rel=1e-12, abs_=1e-15):
            out.append((f"iou-{kind}", f"edge ({u},{v}) frames {times[u]}->{times[v]}: stored "
                        f"{got!r}, masks give {exp!r}"))
    return out, ncmp


def detached_copy(tracks):
    """deepcopy with the refresh slots of the copy replaced (deepcopy copies them)."""
    from . import shim

    c = copy.deepcopy(tracks)
    shim.attach(c)
    return c
