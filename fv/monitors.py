"""Monitors for the session-based properties (C01, C02, C04-C11, C20)."""

from __future__ import annotations

import random
import warnings

import numpy as np

from . import checks, oracles as O, shim
from .canon import STATE_SECTIONS, canon, deep, diff, diff_sections
from .ops import node_time, role_of
from .session import Monitor, violation

OP2CLS = {
    "add_node": "UserAddNode",
    "delete_node": "UserDeleteNode",
    "add_edge": "UserAddEdge",
    "delete_edge": "UserDeleteEdge",
    "swap": "UserSwapPredecessors",
    "update_attrs": "UserUpdateNodeAttrs",
    "paint": "UserUpdateSegmentation",
    "undo": "undo",
    "redo": "redo",
    "features": "features",
    "prim_seg": "UpdateNodeSeg+inverse",
    "ctrl": "TracksController",
    "reload": "save+load",
    "rescale": "scale changed + bulk recompute",
}


def ctrl_steps(rec):
    """How many history steps / refreshes a TracksController call must have produced, and
    the state after each: one per top-level user action that succeeded inside the call
    (update_node_attrs builds one group itself)."""
    if rec.op.get("what") == "update_attrs":
        return [dict((x, rec.post[x]) for x in STATE_SECTIONS)] if rec.out.ok else []
    return [st for _, ok, st in rec.subs if ok]
EDIT_OPS = {"add_node", "delete_node", "add_edge", "delete_edge", "swap", "update_attrs", "paint"}


def is_real_call(rec) -> bool:
    """False for a paint whose stroke changed no pixel (the driver makes no call)."""
    return not (rec.op["op"] == "paint" and rec.out.ok and rec.out.ret == "noop")


def cfg_tag(sess):
    c = sess.cfg
    return f"{c.ndim - 1}D/{'seg' if c.seg else 'noseg'}"


def roles_tag(rec):
    return ",".join(sorted(set(rec.roles.values()))) or "-"


def sig(rec):
    return "(" + ",".join(rec.summary["prims"]) + ")"


# =============================================================================== C01
class InverseMonitor(Monitor):
    """Exact invertibility: after every accepted edit invert it (alternating between
    action.inverse() and tracks.undo()), compare the canonical state with the pre-state,
    invert again, compare with the post-state. Session end: undo everything / redo
    everything. Also primitives applied directly under their preconditions."""

    name = "inverse"

    def __init__(self, prim_rate=0.25, seed=0):
        super().__init__()
        self.rng = random.Random(seed)
        self.prim_rate = prim_rate
        self.nedits = 0

    def start(self, sess):
        self.rng = random.Random(sess.cfg.seed ^ 0x5BD1)  # per session, replayable
        self.init = canon(sess.tracks)
        return []

    def _cmp(self, sess, exp, got, clause, rec, route):
        if exp == got:
            return []
        secs = diff_sections(exp, got)
        return [violation(
            clause,
            f"{route} of {rec.op}: state differs in {secs}: {diff(exp, got)[:6]}",
            f"C01/{clause}/{OP2CLS[rec.op['op']]}/{sig(rec)}/{roles_tag(rec)}",
            route=route)]

    def step(self, sess, rec):
        t = sess.tracks
        out = []
        k = rec.op["op"]
        if not rec.out.ok or not is_real_call(rec):
            return out
        pre = {x: rec.pre[x] for x in STATE_SECTIONS}
        post = {x: rec.post[x] for x in STATE_SECTIONS}
        with warnings.catch_warnings():
            warnings.simplefilter("ignore")
            if k in EDIT_OPS:
                self.nedits += 1
                route = "inverse()" if self.nedits % 2 else "undo()"
                try:
                    if route == "inverse()":
                        inv = rec.out.action.inverse()
                    else:
                        r = t.undo()
                        if r is not True:
                            return [violation("undo-returned-false", f"undo() after {rec.op} "
                                              f"returned {r}", f"C01/undo-false/{OP2CLS[k]}")]
                    self.evals += 1
                    out += self._cmp(sess, pre, canon(t), "inverse-restores", rec, route)
                    if out:
                        return out
                    if route == "inverse()":
                        inv.inverse()
                    else:
                        t.redo()
                    self.evals += 1
                    out += self._cmp(sess, post, canon(t), "inverse-of-inverse", rec, route)
                except Exception as e:
                    return [violation(
                        "inverse-raised", f"{route} of {rec.op} raised {type(e).__name__}: {e}",
                        f"C01/inverse-raised/{OP2CLS[k]}/{sig(rec)}/{type(e).__name__}")]
                if post != pre:
                    self.keys.add(f"{OP2CLS[k]}/{sig(rec)}/{roles_tag(rec)}/"
                                  f"force={bool(rec.op.get('force'))}/{cfg_tag(sess)}")
                    self.count(f"inverted-{OP2CLS[k]}")
                    self._branch_counters(rec)
            elif k in ("undo", "redo") and rec.out.ret is True:
                back, again = (t.redo, t.undo) if k == "undo" else (t.undo, t.redo)
                try:
                    back()
                    self.evals += 1
                    out += self._cmp(sess, pre, canon(t), "inverse-restores", rec, "history")
                    if out:
                        return out
                    again()
                    self.evals += 1
                    out += self._cmp(sess, post, canon(t), "inverse-of-inverse", rec, "history")
                except Exception as e:
                    return [violation("inverse-raised", f"history step after {rec.op} raised "
                                      f"{type(e).__name__}: {e}",
                                      f"C01/inverse-raised/{k}/{type(e).__name__}")]
                self.count(f"inverted-{k}")
        if not out and self.rng.random() < self.prim_rate:
            out += self.primitive(sess)
        return out

    def _branch_counters(self, rec):
        k, s = rec.op["op"], rec.summary
        if k == "add_edge" and rec.op.get("force") and "UserDeleteEdge" in s["nested"]:
            self.count("branch-forced-add-edge")
        if k == "add_node" and rec.op.get("force") and "UserDeleteEdge" in s["nested"]:
            self.count("branch-forced-add-node")
        if k == "delete_node" and "UpdateTrackIDs" in s["prims"]:
            self.count("branch-sibling-relabel")
        if k == "delete_node" and "AddEdge" in s["prims"]:
            self.count("branch-skip-reconnect")
        if k == "paint" and "UserDeleteNode" in s["nested"]:
            self.count("branch-paint-deletes-node")
        if k == "paint" and "UserAddNode" in s["nested"]:
            self.count("branch-paint-creates-node")
        if k == "add_edge" and "UpdateTrackIDs" in s["prims"]:
            self.count("branch-join-or-division")

    # -- primitives applied directly, immediately inverted
    def primitive(self, sess):
        from funtracks.actions import (
            AddEdge,
            AddNode,
            DeleteEdge,
            DeleteNode,
            UpdateNodeAttrs,
            UpdateNodeSeg,
            UpdateTrackIDs,
        )

        t = sess.tracks
        rng = self.rng
        g = t.graph
        nodes = [int(n) for n in g.nodes]
        choices = ["AddNode"]
        if nodes:
            choices += ["UpdateNodeAttrs", "UpdateTrackIDs"]
            if t.segmentation is not None:
                choices.append("UpdateNodeSeg")
        if [n for n in nodes if g.degree(n) == 0]:
            choices.append("DeleteNode")
        if g.number_of_edges():
            choices.append("DeleteEdge")
        fw = [(u, v) for u in nodes for v in nodes
              if node_time(t, u) < node_time(t, v) and not g.has_edge(u, v)]
        if fw:
            choices.append("AddEdge")
        which = rng.choice(choices)
        pre = canon(t)

        def build():
            if which == "AddNode":
                from .ops import _pixels_tuple, fresh_node_id
                from .gen import grow_blob

                T = t.segmentation.shape[0] if t.segmentation is not None else sess.cfg.T
                tt = rng.randrange(T)
                attrs = {t.features.time_key: tt,
                         t.features.tracklet_key: t.get_next_track_id(),
                         t.features.lineage_key: t.get_next_lineage_id()}
                pixels = None
                if t.segmentation is not None:
                    cells = grow_blob(rng, t.segmentation[tt] != 0, rng.choice([1, 3, 6]))
                    if not cells:
                        return None
                    pixels = _pixels_tuple(tt, cells)
                else:
                    pos = [round(rng.uniform(0, s - 1), 3) for s in sess.cfg.frame_shape()]
                    pk = t.features.position_key
                    if isinstance(pk, list):
                        attrs.update(dict(zip(pk, pos)))
                    else:
                        attrs[pk] = pos
                return AddNode(t, fresh_node_id(t, rng), attrs, pixels=pixels)
            if which == "DeleteNode":
                return DeleteNode(t, rng.choice([n for n in nodes if g.degree(n) == 0]))
            if which == "AddEdge":
                return AddEdge(t, rng.choice(fw))
            if which == "DeleteEdge":
                u, v = rng.choice(list(g.edges))
                return DeleteEdge(t, (u, v))
            if which == "UpdateNodeAttrs":
                return UpdateNodeAttrs(t, rng.choice(nodes), {"score": round(rng.random(), 3)})
            if which == "UpdateTrackIDs":
                lid = t.get_next_lineage_id() if rng.random() < 0.5 else None
                start = rng.choice(nodes)
                if lid is not None:
                    # lineage walks the whole downstream; start at a root so the
                    # component stays uniformly labelled (state stays meaningful)
                    while g.in_degree(start):
                        start = next(iter(g.predecessors(start)))
                return UpdateTrackIDs(t, start, t.get_next_track_id(), lid)
            if which == "UpdateNodeSeg":
                from .ops import _pixels_tuple

                n = rng.choice(nodes)
                tt = node_time(t, n)
                idx = np.argwhere(t.segmentation[tt] == n)
                if rng.random() < 0.5 and len(idx) > 1:
                    k = rng.randint(1, len(idx) - 1)
                    cells = [tuple(int(x) for x in c) for c in idx[:k]]
                    return UpdateNodeSeg(t, n, _pixels_tuple(tt, cells), added=False)
                free = np.argwhere(t.segmentation[tt] == 0)
                if len(free) == 0:
                    return None
                cells = [tuple(int(x) for x in free[rng.randrange(len(free))])]
                return UpdateNodeSeg(t, n, _pixels_tuple(tt, cells), added=True)

        try:
            with warnings.catch_warnings():
                warnings.simplefilter("ignore")
                a = build()
                if a is None:
                    return []
                post = canon(t)
                inv = a.inverse()
                mid = canon(t)
                inv2 = inv.inverse()
                again = canon(t)
                inv2.inverse()  # leave the session where it was
                end = canon(t)
        except Exception as e:
            return [violation("primitive-raised", f"primitive {which} or its inverse raised "
                              f"{type(e).__name__}: {e}", f"C01/primitive-raised/{which}")]
        self.evals += 3
        self.count(f"primitive-{which}")
        self.keys.add(f"primitive/{which}/{cfg_tag(sess)}")
        for exp, got, clause in ((pre, mid, "inverse-restores"), (post, again,
                                                                     "inverse-of-inverse"),
                                 (pre, end, "inverse-restores")):
            if exp != got:
                return [violation(clause, f"primitive {which}: {diff(exp, got)[:6]}",
                                  f"C01/{clause}/primitive/{which}")]
        return []

    def finish(self, sess):
        t = sess.tracks
        final = canon(t)
        out = []
        n = 0
        try:
            with warnings.catch_warnings():
                warnings.simplefilter("ignore")
                while t.undo():
                    n += 1
                    if n > 10000:
                        break
                self.evals += 1
                if canon(t) != self.init:
                    out.append(violation(
                        "undo-all", f"undoing all {n} steps does not give the initial state: "
                        f"{diff(self.init, canon(t))[:6]}", "C01/undo-all"))
                m = 0
                while m < n and t.redo():  # exactly as many steps forward as went back
                    m += 1
                self.evals += 1
                if not out and canon(t) != final:
                    out.append(violation(
                        "redo-all", f"redoing all {m} steps does not give the final state: "
                        f"{diff(final, canon(t))[:6]}", "C01/redo-all"))
        except Exception as e:
            out.append(violation("inverse-raised", f"undo-all/redo-all raised "
                                 f"{type(e).__name__}: {e}",
                                 f"C01/inverse-raised/undo-all/{type(e).__name__}"))
        if n:
            self.count("undo-all-sessions")
        return out


# =============================================================================== C02
class TimelineMonitor(Monitor):
    name = "timeline"

    def start(self, sess):
        self.tl = O.Timeline(canon(sess.tracks))
        self.word = []
        self.eau = False  # an edit after an undo has happened
        self.undos_after_eau = 0
        return []

    def step(self, sess, rec):
        if not is_real_call(rec):
            return []
        k = rec.op["op"]
        t = sess.tracks
        out = []
        now = {x: rec.post[x] for x in STATE_SECTIONS}
        s = rec.summary
        if k == "ctrl":
            steps = ctrl_steps(rec)
            nh = len(s["history"])
            self.evals += 1
            for st in steps:
                self.word.append("E")
                if self.tl.can_redo():
                    self.eau = True
                    self.undos_after_eau = 0
                self.tl.edit({x: st[x] for x in STATE_SECTIONS})
            self.count("controller-calls")
            if nh != len(steps):
                out.append(violation(
                    "one-step-per-action", f"TracksController.{rec.op['what']} ran "
                    f"{len(steps)} top-level actions but registered {nh} history steps",
                    f"C02/one-step-per-action/TracksController/{rec.op['what']}"))
        elif k in EDIT_OPS:
            nh = len(s["history"])
            if rec.out.ok:
                self.word.append("E")
                if self.tl.can_redo():
                    self.eau = True
                    self.undos_after_eau = 0
                self.tl.edit(now)
                self.evals += 1
                bad_depth = [h for h in s["history"] if h[2] != 1]
                if nh != 1 or bad_depth:
                    out.append(violation(
                        "one-step-per-action",
                        f"{rec.op}: {nh} history registrations {s['history']} (expected exactly "
                        "one, made by the top-level action)",
                        f"C02/one-step-per-action/{OP2CLS[k]}/{nh}/{sig(rec)}"))
            else:
                self.word.append("x")
                self.evals += 1
                if nh:
                    out.append(violation(
                        "refused-registered", f"refused {rec.op} registered {nh} history steps",
                        f"C02/refused-registered/{OP2CLS[k]}"))
        elif k in ("undo", "redo"):
            self.word.append("U" if k == "undo" else "R")
            exp = self.tl.undo() if k == "undo" else self.tl.redo()
            self.evals += 1
            if rec.out.ret is not exp:
                out.append(violation(
                    "return-value", f"{k}() returned {rec.out.ret!r}, timeline model says {exp}"
                    f" (shape {self.tl.shape()})", f"C02/return-value/{k}/{exp}"))
            if exp is False and rec.out.ok:
                a = dict(rec.pre)
                b = dict(rec.post)
                if a != b:
                    out.append(violation(
                        "nothing-to-do-changes-nothing", f"{k}() with nothing to step to changed "
                        f"{diff_sections(a, b)}", f"C02/noop-changed/{k}"))
                self.count(f"{k}-at-end")
            if k == "undo" and exp and self.eau:
                self.undos_after_eau += 1
                if self.undos_after_eau == 2:
                    self.count("edit-after-undo-then-2-undos")
                    self.keys.add("word/" + "".join(self.word[-14:]))
        if not out:
            self.evals += 1
            if now != self.tl.current:
                first_bad = "C02/timeline/" + k
                out.append(violation(
                    "timeline", f"after {''.join(self.word)[-30:]} the state differs from the "
                    f"timeline model at cursor {self.tl.cursor}/{len(self.tl.states)}: "
                    f"{diff(self.tl.current, now)[:6]}", first_bad + "/" + sig(rec)))
        self.keys.add(f"shape/{min(self.tl.shape()[0], 40)}/{min(self.tl.shape()[1], 40)}")
        return out

    def finish(self, sess):
        # every state ever visited stays reachable: walk all the way back and compare each
        t = sess.tracks
        out = []
        with warnings.catch_warnings():
            warnings.simplefilter("ignore")
            try:
                while True:
                    exp = self.tl.undo()
                    got = t.undo()
                    self.evals += 1
                    if got is not exp:
                        out.append(violation("return-value", f"walk-back: undo() returned {got}"
                                             f", model {exp}", "C02/return-value/walk-back"))
                        break
                    if not exp:
                        break
                    if canon(t) != self.tl.current:
                        out.append(violation(
                            "timeline", f"walk-back at cursor {self.tl.cursor}: "
                            f"{diff(self.tl.current, canon(t))[:6]}", "C02/timeline/walk-back"))
                        break
                self.count("walk-backs")
            except Exception as e:
                out.append(violation("history-raised", f"walk-back raised {type(e).__name__}: "
                                     f"{e}", f"C02/history-raised/{type(e).__name__}"))
        return out


# =============================================================================== C04/C05
class IdMonitor(Monitor):
    """Partition oracle + frame clause for track ids (which='track') or lineage ids."""

    def __init__(self, which: str):
        super().__init__()
        self.which = which
        self.name = which
        self.ok = True
        self.off = False
        self.U: list = []
        self.R: list = []

    def _inv(self, t):
        return checks.track_partition(t) if self.which == "track" else checks.lineage_partition(t)

    def start(self, sess):
        self.evals += 1
        p = self._inv(sess.tracks)
        self.ok = not p
        self.count("constructions")
        self.keys.add(f"construction/{sess.cfg.build}/{cfg_tag(sess)}/"
                      f"n={min(sess.tracks.graph.number_of_nodes(), 12)}")
        if p:
            cid = "C04" if self.which == "track" else "C05"
            return [violation(f"{self.which}-partition-after-construction",
                              "; ".join(m for _, m in p)[:500],
                              f"{cid}/partition/construction/{sess.cfg.build}")]
        return []

    def step(self, sess, rec):
        if not is_real_call(rec):
            return []
        cid = "C04" if self.which == "track" else "C05"
        t = sess.tracks
        k = rec.op["op"]
        out = []
        # which nodes / track ids does this call name?
        named = None
        if k == "reload":
            self.U, self.R = [], []
            self.count("reloads")
        if k == "ctrl":
            named = rec.named
            for _ in ctrl_steps(rec):
                if self.R:
                    self.U.extend(self.R)
                    self.R = []
                self.U.append(named)
        elif k in EDIT_OPS:
            named = rec.named
            if rec.out.ok:
                if self.R:
                    self.U.extend(self.R)
                    self.R = []
                self.U.append(named)
        elif k == "undo" and rec.out.ret is True:
            idx = len(self.U) - len(self.R) - 1
            named = self.U[idx] if 0 <= idx < len(self.U) else None
            self.R.append(named)
        elif k == "redo" and rec.out.ret is True:
            named = self.R.pop() if self.R else None
        # the id feature may be switched off for a while (its values are then not maintained
        # and not judged); switching it on with recomputation is judged like a construction
        # (whether it is off is the harness's own knowledge - it is the one that switches it -
        # not the annotator's flag: an annotator that is silently inactive must not escape)
        fkey = t.features.tracklet_key if self.which == "track" else t.features.lineage_key
        if k == "features" and rec.out.ok and fkey in (rec.op.get("disable") or []):
            self.off = True
        if k == "features" and rec.out.ok and fkey in (rec.op.get("enable") or []):
            self.off = False
        if fkey is None or self.off:
            self.count("steps-while-feature-disabled")
            self.ok = False
            return out
        if k == "features" and fkey in (rec.op.get("enable") or []) and rec.out.ok:
            self.evals += 1
            p = self._inv(t)
            self.ok = not p
            self.count("re-enabled-with-recomputation")
            if p:
                out.append(violation(
                    f"{self.which}-partition",
                    f"after {rec.op} (bulk recomputation): " + "; ".join(m for _, m in p)[:500],
                    f"{cid}/partition/features/recompute"))
            return out
        # partition oracle
        self.evals += 1
        p = self._inv(t)
        if p and self.ok:
            out.append(violation(
                f"{self.which}-partition",
                f"after {rec.op} (roles {rec.roles}): " + "; ".join(m for _, m in p)[:500],
                f"{cid}/partition/{OP2CLS[k]}/{sig(rec)}/{roles_tag(rec)}"))
        changed = rec.pre["nodes"] != rec.post["nodes"] or rec.pre["edges"] != rec.post["edges"]
        if rec.out.ok and changed and k == "ctrl":
            self.count("accepted-TracksController")
        if rec.out.ok and changed and k in EDIT_OPS:
            self.keys.add(f"{OP2CLS[k]}/{sig(rec)}/{roles_tag(rec)}/"
                          f"force={bool(rec.op.get('force'))}")
            self.count(f"accepted-{OP2CLS[k]}")
            self._situation_counters(rec)
        # frame clause
        if named is not None and not out and self.ok:
            out += self.frame(sess, rec, named, cid)
        self.ok = not p
        return out

    def _situation_counters(self, rec):
        k = rec.op["op"]
        pre_e, post_e = set(rec.pre["edges"]), set(rec.post["edges"])
        outdeg_pre = {}
        for u, _ in pre_e:
            outdeg_pre[u] = outdeg_pre.get(u, 0) + 1
        outdeg_post = {}
        for u, _ in post_e:
            outdeg_post[u] = outdeg_post.get(u, 0) + 1
        if k == "add_edge":
            u = rec.op["edge"][0]
            if outdeg_post.get(u, 0) == 2:
                self.count("sit-edge-creates-division")
            if outdeg_pre.get(u, 0) == 0:
                self.count("sit-join")
            if pre_e - post_e:
                self.count("sit-forced-detach")
        if k == "delete_edge":
            u = rec.op["edge"][0]
            if outdeg_pre.get(u, 0) == 2:
                self.count("sit-delete-division-edge")
            else:
                self.count("sit-delete-plain-edge")
        if k == "delete_node":
            r = rec.roles.get(rec.op["node"], "")
            if "dividing" in r:
                self.count("sit-delete-dividing-node")
            if "after-division" in r:
                self.count("sit-delete-first-after-division")
        if k == "add_node" and (pre_e - post_e):
            self.count("sit-forced-detach")

    def frame(self, sess, rec, named, cid):
        key = sess.tracks.features.tracklet_key if self.which == "track" \
            else sess.tracks.features.lineage_key
        tkey = sess.tracks.features.tracklet_key
        pre_n, post_n = rec.pre["nodes"], rec.post["nodes"]

        def protected_in(nodes, edges):
            comp_of = {}
            for c in O.component_partition(nodes.keys(), edges.keys()):
                touched = any(n in named["nodes"] or nodes[n].get(tkey) in named["tids"]
                              for n in c)
                for n in c:
                    comp_of[n] = touched
            return {n for n, touched in comp_of.items() if not touched}

        prot = protected_in(pre_n, rec.pre["edges"]) & protected_in(post_n, rec.post["edges"])
        self.evals += 1
        self.count("frame-protected-nodes", len(prot))
        bad = [(n, pre_n[n].get(key), post_n[n].get(key)) for n in sorted(prot)
               if pre_n[n].get(key) != post_n[n].get(key)]
        if bad:
            return [violation(
                f"{self.which}-frame",
                f"{rec.op} changed the {self.which} id of nodes in untouched components: "
                f"{bad[:6]} (named {named})",
                f"{cid}/frame/{OP2CLS[rec.op['op']]}/{sig(rec)}")]
        return []


# =============================================================================== C06
class LookupMonitor(Monitor):
    name = "lookups"

    def __init__(self, seed=0):
        super().__init__()
        self.ok: set[str] | None = None
        self.rng = random.Random(seed)

    def _eval(self, sess):
        T = sess.tracks.segmentation.shape[0] if sess.tracks.segmentation is not None \
            else sess.cfg.T
        # the query battery runs after about half of the steps only, so that runs of edits
        # happen without any observer query in between (a query may refresh internal caches)
        q = getattr(self, "_force_queries", False) or self.rng.random() < 0.5
        probs, n = checks.lookups(sess.tracks, T, queries=q)
        self.evals += n + 1
        self.count("query-comparisons", n)
        self.count("table-comparisons")
        return probs

    def start(self, sess):
        self.rng = random.Random(sess.cfg.seed ^ 0x6C0)
        probs = self._eval(sess)
        self.bad = {c for c, _ in probs}
        if probs:
            return [violation(probs[0][0], f"after construction: {probs[0][1][:400]}",
                              f"C06/{probs[0][0]}/construction")]
        return []

    def step(self, sess, rec):
        if not is_real_call(rec):
            return []
        probs = self._eval(sess)
        out = []
        now_bad = {c for c, _ in probs}
        k = rec.op["op"]
        for c, m in probs:
            if c not in self.bad:
                out.append(violation(c, f"after {rec.op}: {m[:500]}",
                                     f"C06/{c}/{OP2CLS[k]}/{sig(rec)}"))
                break
        self.bad = now_bad
        # an id that this call put on the graph for the first time labels ONE segment /
        # component: an id issued twice inside one action shows up as one new id on two
        if not out and rec.out.ok and k != "features":
            t = sess.tracks
            tk, lk = t.features.tracklet_key, t.features.lineage_key
            for key, part, what in ((tk, O.segment_partition, "track"),
                                    (lk, O.component_partition, "lineage")):
                old = {a.get(key) for a in rec.pre["nodes"].values()}
                new: dict = {}
                for n, a in rec.post["nodes"].items():
                    if a.get(key) is not None and a.get(key) not in old:
                        new.setdefault(a.get(key), set()).add(n)
                if not new:
                    continue
                self.evals += 1
                self.count(f"new-{what}-ids-seen", len(new))
                tkey = t.features.time_key
                times = {n: a[tkey] for n, a in rec.post["nodes"].items()}
                comp_of = {}
                for i, c in enumerate(part(times, list(rec.post["edges"]))):
                    for n in c:
                        comp_of[n] = i
                for i_, ns in new.items():
                    if len({comp_of[n] for n in ns}) > 1:
                        out.append(violation(
                            f"fresh-{what}-issued-twice",
                            f"after {rec.op}: new {what} id {i_} labels nodes {sorted(ns)} which "
                            f"lie in {len({comp_of[n] for n in ns})} different "
                            f"{'segments' if what == 'track' else 'components'}",
                            f"C06/fresh-{what}-issued-twice/{OP2CLS[k]}/{sig(rec)}"))
                        break
                if out:
                    break
        if not out and self.rng.random() < 0.3:
            n = self.rng.choice([1, 3])
            self.evals += 1
            self.count("fresh-node-id-calls")
            for c, m in checks.fresh_node_ids(sess.tracks, n):
                out.append(violation(c, m, f"C06/{c}"))
                break
        ta = sess.tracks.track_annotator
        self.keys.add(f"cache-shape/{min(len(ta.tracklet_id_to_nodes), 15)}/"
                      f"{min(len(ta.lineage_id_to_nodes), 15)}/{k}")
        if rec.out.ok and k in ("undo", "redo") and rec.out.ret:
            self.count(f"after-{k}")
        if rec.out.ok and k == "features":
            self.count("id-recomputations")
        return out


# =============================================================================== C07
class SegMonitor(Monitor):
    name = "seg"

    def start(self, sess):
        self.tl = O.Timeline(seg_digest_of(sess.tracks))
        p = checks.seg_bijection(sess.tracks)
        self.ok = not p
        if p:
            return [violation(p[0][0], f"after construction: {p[0][1]}",
                              f"C07/{p[0][0]}/construction")]
        return []

    @staticmethod
    def stroke_class(rec):
        info = rec.out.info or {}
        prev = [p for p in info.get("prev_labels", []) if p != 0]
        label = rec.op["label"]
        lab = "background" if label == 0 else "existing" if rec.roles.get(label) != "unknown" \
            else "new"
        fully = sum(1 for n in prev if n in rec.pre["nodes"] and n not in rec.post["nodes"])
        if not prev:
            over = "none"
        elif len(prev) == 1:
            over = "all-of-one" if fully == 1 else "part-of-one"
        else:
            over = "all-of-several" if fully == len(prev) else \
                "parts-of-several" if fully == 0 else "mixed-several"
        return lab, over

    def step(self, sess, rec):
        if not is_real_call(rec):
            return []
        t = sess.tracks
        k = rec.op["op"]
        out = []
        self.evals += 1
        p = checks.seg_bijection(t)
        if p and self.ok:
            out.append(violation(p[0][0], f"after {rec.op if k != 'paint' else {**rec.op, 'cells': '...'}}"
                                 f" ({'ok' if rec.out.ok else rec.out.exc_type}): {p[0][1]}",
                                 f"C07/{p[0][0]}/{OP2CLS[k]}/{sig(rec)}"))
        self.ok = not p
        # every undo / redo restores the array of the state it steps to (not only the undo
        # that directly follows a stroke)
        if not out:
            if k == "ctrl":
                for st in ctrl_steps(rec):
                    self.tl.edit(st["seg"])
            elif k in EDIT_OPS and rec.out.ok:
                self.tl.edit(rec.post["seg"])
            elif k in ("undo", "redo") and rec.out.ok:
                moved = self.tl.undo() if k == "undo" else self.tl.redo()
                self.evals += 1
                self.count("array-vs-timeline-comparisons")
                if rec.post["seg"] != self.tl.current:
                    out.append(violation(
                        "undo-restores-array", f"after {k} (model: "
                        f"{'stepped' if moved else 'nothing to step to'}) the label array is not "
                        f"the one of the state stepped to (cursor {self.tl.cursor}/"
                        f"{len(self.tl.states)})", f"C07/array-timeline/{k}/{sig(rec)}"))
        if k == "paint" and rec.out.ok and not out:
            info = rec.out.info
            lab, over = self.stroke_class(rec)
            self.keys.add(f"stroke/{lab}/{over}/{cfg_tag(sess)}")
            self.count(f"stroke-{lab}")
            self.count(f"stroke-over-{over}")
            self.evals += 1
            if not np.array_equal(t.segmentation, info["painted"]):
                d = np.argwhere(t.segmentation != info["painted"])
                out.append(violation(
                    "paint-exact", f"after the paint edit the array differs from the painted "
                    f"array at {len(d)} pixels, e.g. {d[:3].tolist()}",
                    f"C07/paint-exact/{lab}/{over}/{sig(rec)}"))
            else:
                with warnings.catch_warnings():
                    warnings.simplefilter("ignore")
                    try:
                        t.undo()
                        self.evals += 1
                        if not np.array_equal(t.segmentation, info["before"]):
                            d = np.argwhere(t.segmentation != info["before"])
                            out.append(violation(
                                "paint-undo-exact", f"undo of the paint leaves {len(d)} pixels "
                                f"different from the pre-stroke array, e.g. {d[:3].tolist()}",
                                f"C07/paint-undo-exact/{lab}/{over}/{sig(rec)}"))
                        t.redo()
                        self.evals += 1
                        if not out and not np.array_equal(t.segmentation, info["painted"]):
                            out.append(violation(
                                "paint-redo-exact", "redo of the paint does not reproduce the "
                                "painted array", f"C07/paint-redo-exact/{lab}/{over}/{sig(rec)}"))
                    except Exception as e:
                        out.append(violation("paint-undo-raised", f"{type(e).__name__}: {e}",
                                             f"C07/paint-undo-raised/{lab}/{over}"))
        return out


# =============================================================================== C08
class RegionpropsMonitor(Monitor):
    name = "regionprops"

    def start(self, sess):
        p, n = checks.regionprops_values(sess.tracks)
        self.evals += n
        self.bad = {c for c, _ in p}
        if p:
            return [violation(p[0][0], f"after construction: {p[0][1]}",
                              f"C08/{p[0][0]}/construction/{sess.cfg.build}")]
        return []

    def step(self, sess, rec):
        if not is_real_call(rec):
            return []
        k = rec.op["op"]
        p, n = checks.regionprops_values(sess.tracks)
        self.evals += n
        out = []
        now = {c for c, _ in p}
        for c, m in p:
            if c not in self.bad:
                out.append(violation(c, f"after {OP2CLS[k]} {sig(rec)}: {m}",
                                     f"C08/{c}/{OP2CLS[k]}/{sig(rec)}"))
                break
        self.bad = now
        if rec.out.ok and n:
            from funtracks.annotators import RegionpropsAnnotator

            ann = next(a for a in sess.tracks.annotators if isinstance(a, RegionpropsAnnotator))
            for f in ann.features:
                self.keys.add(f"{f}/{k}/{sess.cfg.scale}/{sess.cfg.ndim - 1}D")
                self.count(f"cmp-{f}", len(rec.post["nodes"]))
        return out


# =============================================================================== C09
class IouMonitor(Monitor):
    name = "iou"

    def __init__(self, seed=0, differential_rate=0.5):
        super().__init__()
        self.rng = random.Random(seed)
        self.rate = differential_rate

    def _eval(self, sess, path):
        p, n = checks.iou_values(sess.tracks)
        for kind, c in n.items():
            self.evals += c
            self.count(f"cmp-{kind}-{path}", c)
        return p

    def start(self, sess):
        self.rng = random.Random(sess.cfg.seed ^ 0x109)
        self.path = "bulk"  # values present at construction come from the bulk path
        p = self._eval(sess, "bulk")
        self.bad = {c for c, _ in p}
        if p:
            return [violation(p[0][0], f"after construction/enable: {p[0][1]}",
                              f"C09/{p[0][0]}/bulk/construction")]
        return []

    def step(self, sess, rec):
        if not is_real_call(rec):
            return []
        t = sess.tracks
        k = rec.op["op"]
        if k == "features":
            path = "bulk"
        else:
            path = "incremental"
        p = self._eval(sess, path)
        out = []
        now = {c for c, _ in p}
        for c, m in p:
            if c not in self.bad or k == "features":
                label = OP2CLS.get(k, k)
                out.append(violation(c, f"after {label} {sig(rec)} ({path}): {m}",
                                     f"C09/{c}/{path}/{label}/{sig(rec)}"))
                break
        self.bad = now
        if rec.out.ok:
            self.keys.add(f"{path}/{k}/{sig(rec)}")
        # differential clause: bulk recomputation on a copy must agree with what is stored
        ik = checks.iou_key(t)
        if not out and ik in t.annotators.features and self.rng.random() < self.rate:
            c = checks.detached_copy(t)
            with warnings.catch_warnings():
                warnings.simplefilter("ignore")
                c.enable_features([ik])
            for u, v in t.graph.edges:
                a = t.get_edge_attr((u, v), ik)
                b = c.get_edge_attr((u, v), ik)
                skip = node_time(t, v) - node_time(t, u) != 1
                self.evals += 1
                self.count("differential-skip" if skip else "differential-consecutive")
                if not O.close(a, b, rel=1e-12, abs_=1e-15):
                    out.append(violation(
                        "bulk-vs-incremental", f"edge ({u},{v}) "
                        f"{'skip' if skip else 'consecutive'}: stored {a!r}, bulk "
                        f"recomputation {b!r}",
                        f"C09/bulk-vs-incremental/{'skip' if skip else 'consecutive'}"))
                    break
        return out


# =============================================================================== C11
def stale_lineage_rollback(pre: dict, post: dict):
    """Mechanism signature of the recorded finding (known_findings.json, DESIGN.md §8.6):
    the ONLY differences between pre and post are lineage-id values (node attribute and
    the annotator's lineage table), and every node whose value differs lies in a connected
    component that carried MORE THAN ONE lineage id already before the call (possible only
    after history entries recorded before a bulk re-numbering of the lineage ids were
    replayed). Returns the offending pre-state components' ids, or None."""
    lk = pre.get("feature_keys", (None,) * 4)[3]
    if lk is None:
        return None

    def strip(d):
        e = {k: v for k, v in d.items() if k != "lineage_map"}
        e["nodes"] = {n: {k: v for k, v in a.items() if k != lk}
                      for n, a in d.get("nodes", {}).items()}
        e["all_node_attrs"] = {n: tuple(kv for kv in a if kv[0] != lk)
                               for n, a in d.get("all_node_attrs", {}).items()}
        return e

    if strip(pre) != strip(post):
        return None
    lin0 = {n: dict(a).get(lk) for n, a in pre["all_node_attrs"].items()}
    lin1 = {n: dict(a).get(lk) for n, a in post["all_node_attrs"].items()}
    changed = [n for n in lin0 if lin0[n] != lin1.get(n)]
    if not changed:
        return None
    parent = {n: n for n in lin0}

    def find(x):
        while parent[x] != x:
            parent[x] = parent[parent[x]]
            x = parent[x]
        return x

    for u, v in pre["edges"]:
        parent[find(u)] = find(v)
    ids: dict = {}
    for n in lin0:
        ids.setdefault(find(n), set()).add(lin0[n])
    if all(len(ids[find(n)]) > 1 for n in changed):
        return sorted(sorted(map(str, ids[find(n)])) for n in {find(c): c for c in changed}.values())
    return None


class AtomicityMonitor(Monitor):
    name = "atomic"

    def step(self, sess, rec):
        k = rec.op["op"]
        if k == "ctrl" and not rec.out.ok and rec.out.exc_type != "HANG":
            # an element of the call was refused: the state must be the one after the last
            # element that succeeded (or the state before the call)
            steps = ctrl_steps(rec)
            base = steps[-1] if steps else {x: rec.pre[x] for x in STATE_SECTIONS}
            now = {x: rec.post[x] for x in STATE_SECTIONS}
            self.evals += 1
            self.count("refusals")
            self.count("refused-TracksController")
            self.keys.add(f"TracksController.{rec.op['what']}/{rec.out.exc_type}/"
                          f"after={len(steps)}")
            if now != base:
                return [violation(
                    "refused-edit-changed-state",
                    f"TracksController.{rec.op['what']} raised {rec.out.exc_type} "
                    f"({rec.out.exc_msg}) after {len(steps)} completed actions; the state "
                    f"differs from the one after the last completed action: "
                    f"{diff(base, now)[:5]}",
                    f"C11/changed/TracksController/{rec.op['what']}/{rec.out.exc_type}")]
            return []
        if rec.out.ok or k not in EDIT_OPS:
            if rec.out.ok and k in EDIT_OPS and is_real_call(rec):
                self.count("accepted")
            return []
        if rec.out.exc_type == "HANG":
            return []
        self.evals += 1
        s = rec.summary
        site = "?"
        for e in rec.window:
            if e[0] == "raise":
                site = e[5]
                break
        nprim = len(s["prims"])
        cls = OP2CLS[k]
        self.count("refusals")
        self.count(f"refused-{cls}")
        if nprim:
            self.count("refusals-with-applied-subedits")
        self.keys.add(f"{cls}/{rec.out.exc_type}/{site}/applied={min(nprim, 3)}")
        out = []
        if rec.pre != rec.post:
            secs = diff_sections(rec.pre, rec.post)
            stale = stale_lineage_rollback(rec.pre, rec.post)
            if stale:
                self.count("known-finding-stale-lineage-rollback")
            out.append(violation(
                "refused-edit-changed-state",
                f"{ {**rec.op, 'cells': '...'} if k == 'paint' else rec.op} raised "
                f"{rec.out.exc_type} ({rec.out.exc_msg}) at {site} after {nprim} sub-edits "
                f"{s['prims']}; changed: {secs}: {diff(rec.pre, rec.post)[:6]}"
                + (f"; BEFORE the call the component(s) of the changed nodes already carried "
                   f"several lineage ids: {stale}" if stale else ""),
                "C11/lineage-only/component-had-several-lineage-ids-before-the-call" if stale
                else f"C11/changed/{cls}/{rec.out.exc_type}/{sig(rec)}"))
        elif s["emits"]:
            out.append(violation(
                "refused-edit-emitted", f"{rec.op} raised {rec.out.exc_type} but emitted "
                f"{len(s['emits'])} refresh", f"C11/emitted/{cls}/{rec.out.exc_type}"))
        return out


# =============================================================================== C20
class RefreshMonitor(Monitor):
    name = "refresh"

    def start(self, sess):
        # own model of "is there something to step to" (never the return value of the call)
        self.tl = O.Timeline(0)
        self.nedit = 0
        return []

    def step(self, sess, rec):
        if not is_real_call(rec):
            return []
        if rec.out.exc_type == "HANG" or rec.op["op"] in ("prim_seg", "features", "reload"):
            return []
        k = rec.op["op"]
        cls = OP2CLS[k]
        s = rec.summary
        emits = s["emits"]
        self.evals += 1
        out = []
        if k == "ctrl":
            steps = ctrl_steps(rec)
            for _ in steps:
                self.nedit += 1
                self.tl.edit(self.nedit)
            self.count(f"controller-{rec.op['what']}")
            if len(emits) != len(steps):
                return [violation(
                    "emission-count", f"TracksController.{rec.op['what']} completed "
                    f"{len(steps)} top-level actions and emitted refresh {len(emits)}x",
                    f"C20/count/TracksController/{rec.op['what']}/{len(steps)}/{len(emits)}")]
            return []
        if k in ("undo", "redo"):
            possible = self.tl.undo() if k == "undo" else self.tl.redo()
            expect = 1 if possible else 0
            outcome = "done" if expect else "nothing-to-do"
        else:
            expect = 1 if rec.out.ok else 0
            outcome = "ok" if rec.out.ok else "refused"
            if rec.out.ok and k in EDIT_OPS:
                self.nedit += 1
                self.tl.edit(self.nedit)
        self.keys.add(f"{cls}/{outcome}/depth={s['maxdepth']}/{sig(rec)}")
        self.count(f"{outcome}-{cls}")
        if s["maxdepth"] >= 2:
            self.count("windows-with-nesting")
        if len(emits) != expect:
            out.append(violation(
                "emission-count", f"{rec.op if k != 'paint' else 'paint'} ({outcome}) emitted "
                f"refresh {len(emits)}x at depths {[e[1] for e in emits]}, expected {expect}",
                f"C20/count/{cls}/{outcome}/{len(emits)}"))
            return out
        if expect:
            e = emits[0]
            if e[1] != 1:
                out.append(violation("emission-depth", f"{cls}: refresh emitted at nesting "
                                     f"depth {e[1]}", f"C20/depth/{cls}"))
            # after the last primitive application of the window
            last_prim = max([i for i, x in enumerate(rec.window) if x[0] == "prim"] or [-1])
            idx = rec.window.index(e)
            if idx < last_prim:
                out.append(violation("emission-order", f"{cls}: refresh emitted before the last "
                                     "sub-edit was applied", f"C20/order/{cls}"))
            payload = e[2]
            want = None
            if k == "add_node":
                want = rec.op["node"]
            elif k == "paint" and "UserAddNode" in s["nested"]:
                want = rec.op["label"]
            if (payload is None) != (want is None) or (want is not None and payload != want):
                out.append(violation(
                    "emission-payload", f"{cls}: refresh carried {payload!r}, expected {want!r}",
                    f"C20/payload/{cls}"))
        return out


# =============================================================================== C10
class FeatureSwitchMonitor(Monitor):
    """Reference model: the set of enabled keys; registry = static + enabled."""

    name = "features"

    def start(self, sess):
        t = sess.tracks
        self.available = set(t.annotators.all_features)
        self.enabled = set(t.annotators.features)
        self.static = set(t.features) - self.available
        # keys whose values are asserted (enabled with recompute or from construction)
        self.trusted = set(self.enabled) - {t.features.tracklet_key, t.features.lineage_key}
        self.frozen: dict[str, dict] = {}  # disabled key -> {element: (dict id, value)}
        self.id_ok: dict[str, bool] = {}
        self.renumbered = False
        self.id_judge = True
        self.special_keys = (t.features.time_key, norm_(t.features.position_key),
                             t.features.tracklet_key, t.features.lineage_key)
        return self._registry(sess, "construction")

    def _registry(self, sess, where):
        t = sess.tracks
        self.evals += 1
        out = []
        reg = set(t.features)
        if reg != self.static | self.enabled:
            out.append(violation(
                "registry", f"after {where}: registry {sorted(reg)} != static "
                f"{sorted(self.static)} + enabled {sorted(self.enabled)}",
                f"C10/registry/{where.split(' ')[0]}"))
        act = set(t.annotators.features)
        if act != self.enabled:
            out.append(violation(
                "activation", f"after {where}: annotators manage {sorted(act)}, model says "
                f"{sorted(self.enabled)}", f"C10/activation/{where.split(' ')[0]}"))
        return out

    def _values(self, sess, keys, where):
        """Reference values for the given (trusted) keys in the current state."""
        t = sess.tracks
        out = []
        tk, lk = t.features.tracklet_key, t.features.lineage_key
        if tk in keys:
            self.evals += 1
            for c, m in checks.track_partition(t):
                out.append(violation("values", f"{where}: {tk}: {m}", f"C10/values/{tk}"))
                break
        if lk in keys:
            self.evals += 1
            for c, m in checks.lineage_partition(t):
                out.append(violation("values", f"{where}: {lk}: {m}", f"C10/values/{lk}"))
                break
        if "n_children" in keys:
            self.evals += 1
            for n in t.graph.nodes:
                if t.get_node_attr(n, "n_children") != t.graph.out_degree(n):
                    out.append(violation("values", f"{where}: n_children of node {n} is "
                                         f"{t.get_node_attr(n, 'n_children')!r}, out-degree "
                                         f"{t.graph.out_degree(n)}", "C10/values/n_children"))
                    break
        if t.segmentation is not None:
            ik = checks.iou_key(t)
            rp = [k for k in keys if k not in (tk, lk, ik)]
            if rp:
                p, n = checks.regionprops_values(t, only=set(rp))
                self.evals += n
                for c, m in p:
                    out.append(violation("values", f"{where}: {m}", f"C10/values/{c}"))
                    break
            if ik in keys:
                p, n = checks.iou_values(t)
                self.evals += sum(n.values())
                for c, m in p:
                    out.append(violation("values", f"{where}: {m}", f"C10/values/iou"))
                    break
        return out

    def _snapshot(self, t, key):
        g = t.graph
        # the identity of the attribute dict (kept alive by the snapshot, so its id cannot be
        # reused) tells whether the element was re-created
        if key == checks.iou_key(t):
            return {(int(u), int(v)): (a, norm_(a.get(key)))
                    for u, v, a in g.edges(data=True)}
        return {int(n): (a, norm_(a.get(key))) for n, a in g.nodes(data=True)}

    def step(self, sess, rec):
        if not is_real_call(rec):
            return []
        t = sess.tracks
        k = rec.op["op"]
        out = []
        if k == "features":
            en = list(rec.op.get("enable") or [])
            dis = list(rec.op.get("disable") or [])
            unknown = [x for x in en + dis if x not in self.available]
            self.count("feature-ops")
            if unknown:
                self.count("unknown-key-ops")
                self.evals += 1
                if rec.out.ok or rec.out.exc_type != "KeyError":
                    out.append(violation(
                        "unknown-key", f"{rec.op} with unknown {unknown}: "
                        f"{'accepted' if rec.out.ok else rec.out.exc_type}, expected KeyError",
                        "C10/unknown-key/outcome"))
                elif rec.pre != rec.post:
                    out.append(violation(
                        "unknown-key", f"{rec.op} raised KeyError but changed "
                        f"{diff_sections(rec.pre, rec.post)}", "C10/unknown-key/changed"))
                return out
            if not rec.out.ok:
                out.append(violation("feature-op-raised", f"{rec.op} raised {rec.out.exc_type}: "
                                     f"{rec.out.exc_msg}", f"C10/raised/{rec.out.exc_type}"))
                return out
            idkeys = {t.features.tracklet_key, t.features.lineage_key}
            if set(en) & idkeys and rec.op.get("recompute", True):
                self.renumbered = True
            for x in en:
                self.enabled.add(x)
                self.frozen.pop(x, None)
                if rec.op.get("recompute", True) and x not in idkeys:
                    # (re-numbering the ids makes older history entries refer to stale ids;
                    # their values are asserted right after enabling only - C04/C05 cover
                    # the rest)
                    self.trusted.add(x)
                    self.count("enable-recompute")
                else:
                    self.trusted.discard(x)
                    self.count("enable-no-recompute")
            for x in dis:
                was = x in self.enabled
                self.enabled.discard(x)
                self.trusted.discard(x)
                if was or x not in self.frozen:
                    self.frozen[x] = self._snapshot(t, x)
                self.count("disable")
            self.keys.add(f"switch/en={sorted(en)}/dis={sorted(dis)}/"
                          f"rc={rec.op.get('recompute', True)}")
            out += self._registry(sess, f"features {rec.op}")
            if not out and en:
                fk = (t.features.time_key, norm_(t.features.position_key),
                      t.features.tracklet_key, t.features.lineage_key)
                self.evals += 1
                if fk != self.special_keys:
                    out.append(violation(
                        "registry", f"after {rec.op} the registry's special keys (time, "
                        f"position, tracklet, lineage) are {fk}, they were {self.special_keys}",
                        "C10/registry/special-keys"))
            if not out and en and rec.op.get("recompute", True):
                out += self._values(sess, set(en), f"after enabling {en} with recomputation")
            return out
        # ---- edits / undo / redo
        if k == "ctrl" and rec.op.get("what") == "update_attrs":
            prot = set(self.available) | {t.features.time_key}
            keys = set(rec.op["attrs"])
            if keys & prot:
                self.evals += 1
                self.count("protected-attr-offers-via-controller")
                if rec.out.ok or rec.out.exc_type != "ValueError":
                    out.append(violation(
                        "protected", f"TracksController.update_node_attrs {sorted(keys)} with a "
                        f"managed/time key: {'accepted' if rec.out.ok else rec.out.exc_type}, "
                        "expected ValueError", f"C10/protected/controller/{sorted(keys & prot)[0]}"))
                elif {x: rec.pre[x] for x in STATE_SECTIONS} != \
                        {x: rec.post[x] for x in STATE_SECTIONS}:
                    out.append(violation(
                        "protected", "refused controller update changed the graph: "
                        f"{diff(rec.pre, rec.post)[:4]}", "C10/protected/controller/changed"))
        if k == "update_attrs" and rec.op["node"] in rec.pre["nodes"]:
            prot = set(self.available) | {t.features.time_key}
            keys = set(rec.op["attrs"])
            self.evals += 1
            if keys & prot:
                self.count("protected-attr-offers")
                self.keys.add(f"protected/{sorted(keys & prot)}/"
                              f"enabled={bool(keys & self.enabled)}")
                if rec.out.ok or rec.out.exc_type != "ValueError":
                    out.append(violation(
                        "protected", f"UserUpdateNodeAttrs {rec.op['attrs']} on managed/time "
                        f"key: {'accepted' if rec.out.ok else rec.out.exc_type}, expected "
                        "ValueError", f"C10/protected/{sorted(keys & prot)[0]}"))
                elif rec.pre != rec.post:
                    out.append(violation("protected", "refused protected update changed "
                                         f"{diff_sections(rec.pre, rec.post)}",
                                         "C10/protected/changed"))
            else:
                self.count("custom-attr-offers")
                if not rec.out.ok:
                    out.append(violation("custom-attr-refused", f"{rec.op} raised "
                                         f"{rec.out.exc_type}: {rec.out.exc_msg}",
                                         "C10/custom-attr-refused"))
        out += self._registry(sess, f"{k}")
        # the id features, while enabled, stay right across every NEW edit (preservation
        # form: judged only if they were right before the edit; undo / redo are not judged
        # here because a bulk re-numbering makes older history entries refer to old ids)
        if k in ("undo", "redo") and self.renumbered:
            # history entries recorded before a bulk re-numbering refer to the old ids; once
            # one of them has been replayed the id state of this session is not judged any more
            self.id_judge = False
        if not out and k in EDIT_OPS and rec.out.ok and self.id_judge:
            tk, lk = t.features.tracklet_key, t.features.lineage_key
            for key, fn in ((tk, checks.track_partition), (lk, checks.lineage_partition)):
                if key in self.enabled:
                    bad = fn(t)
                    self.evals += 1
                    was = self.id_ok.get(key, True)
                    self.id_ok[key] = not bad
                    if bad and was:
                        out.append(violation(
                            "values", f"{key} enabled; after {rec.op if k != 'paint' else 'paint'}"
                            f": {bad[0][1][:300]}", f"C10/values/{key}/after-edit"))
                        break
        elif k in ("undo", "redo", "features"):
            self.id_ok = {}
            for key, fn in ((t.features.tracklet_key, checks.track_partition),
                            (t.features.lineage_key, checks.lineage_partition)):
                if key in self.enabled:
                    self.id_ok[key] = not fn(t)
        # trusted keys stay right (this is where C08/C09 meet C10)
        if not out and rec.out.ok:
            out += self._values(sess, self.trusted & self.enabled, f"after {k}")
        # disabled features are no longer changed by edits
        if not out:
            for key, snap in self.frozen.items():
                now = self._snapshot(t, key)
                for el in list(snap):
                    if el not in now or now[el][0] is not snap[el][0]:
                        del snap[el]  # element did not exist continuously
                        continue
                    self.evals += 1
                    if now[el][1] != snap[el][1]:
                        out.append(violation(
                            "disabled-changed", f"disabled feature {key!r} of {el} changed "
                            f"{snap[el][1]!r} -> {now[el][1]!r} by {k} {sig(rec)}",
                            f"C10/disabled-changed/{key}/{OP2CLS[k]}"))
                        break
                if out:
                    break
                self.count("frozen-comparisons", len(snap))
        return out


def seg_digest_of(tracks):
    from .canon import seg_digest

    return seg_digest(tracks.segmentation)


def norm_(v):
    from .canon import norm

    return norm(v)


# =============================================================================== C16
class ReadOnlyMonitor(Monitor):
    """deep snapshot (incl. counters) before and after read-only operations."""

    name = "readonly"

    def __init__(self, rate=0.6):
        super().__init__()
        self.rate = rate

    def start(self, sess):
        self.rng = random.Random(sess.cfg.seed ^ 0xC16)
        return self.probe(sess, "construction", 3)

    def step(self, sess, rec):
        if self.rng.random() > self.rate:
            return []
        return self.probe(sess, rec.op["op"], 2)

    def operations(self, sess):
        from funtracks.import_export import export_to_csv, export_to_geff, save_tracks
        from funtracks.import_export._utils import filter_graph_with_ancestors
        from funtracks.import_export.geff._export import split_position_attr

        t = sess.tracks
        rng = self.rng
        nodes = [int(n) for n in t.graph.nodes]
        edges = list(t.graph.edges)
        wd = sess.workdir
        sub = set(rng.sample(nodes, rng.randint(1, len(nodes)))) if nodes else None
        uniq = f"{self.evals}-{rng.randrange(1 << 30)}"
        ops = {}
        if nodes:
            ops["export_to_csv"] = lambda: export_to_csv(t, wd / f"a{uniq}.csv")
            ops["export_to_csv/display"] = lambda: export_to_csv(
                t, wd / f"b{uniq}.csv", use_display_names=True)
            ops["export_to_csv/subset"] = lambda: export_to_csv(
                t, wd / f"c{uniq}.csv", node_ids=sub)
            # the selection handed over as a list, also as the very list object that a query
            # of the tracks returned
            own = next(iter(t.track_id_to_node.values()))
            ops["export_to_csv/subset-as-list"] = lambda: export_to_csv(
                t, wd / f"cl{uniq}.csv", node_ids=sorted(sub))
            ops["export_to_csv/subset-own-list"] = lambda: export_to_csv(
                t, wd / f"co{uniq}.csv", node_ids=own)
            ops["export_to_geff/subset-own-list"] = lambda: export_to_geff(
                t, wd / f"go{uniq}.zarr", node_ids=own)
            ops["filter_graph_with_ancestors/own-list"] = lambda: filter_graph_with_ancestors(
                t.graph, own)
            ops["export_to_csv/colors"] = lambda: export_to_csv(
                t, wd / f"d{uniq}.csv",
                color_dict={n: np.array([0.1, 0.5, 0.9, 1.0]) for n in nodes})
            if t.segmentation is not None:
                ops["export_to_csv/seg"] = lambda: export_to_csv(
                    t, wd / f"e{uniq}.csv", export_seg=True, seg_path=wd / f"e{uniq}.tif")
            ops["export_to_geff"] = lambda: export_to_geff(t, wd / f"g{uniq}.zarr")
            ops["export_to_geff/subset"] = lambda: export_to_geff(
                t, wd / f"h{uniq}.zarr", node_ids=sub)
            ops["export_to_geff/zarr3"] = lambda: export_to_geff(
                t, wd / f"i{uniq}.zarr", zarr_format=3)
        ops["save_tracks"] = lambda: save_tracks(t, wd / f"s{uniq}")
        ops["save_tracks/method"] = lambda: t.save(wd / f"m{uniq}")
        if nodes:
            ops["export_to_csv/deprecated-method"] = lambda: t.export_tracks(
                wd / f"x{uniq}.csv")
        ops["queries/registry"] = lambda: (
            t.features.dump_json(), list(t.features.node_features),
            list(t.features.edge_features), dict(t.annotators.all_features),
            dict(t.annotators.features), t.get_available_features(), t.ndim, t.scale,
            len(t.action_history.undo_stack), len(t.action_history.redo_stack))
        ops["split_position_attr"] = lambda: split_position_attr(t)
        if nodes:
            ops["filter_graph_with_ancestors"] = lambda: filter_graph_with_ancestors(
                t.graph, set(sub))
            n0 = rng.choice(nodes)
            ops["queries/node"] = lambda: (
                t.nodes(), t.edges(), t.in_degree(), t.out_degree(),
                t.in_degree(np.array([n0])), t.out_degree(np.array([n0])),
                t.predecessors(n0), t.successors(n0), t.get_positions([n0]),
                t.get_positions(nodes, incl_time=True), t.get_position(n0), t.get_time(n0),
                t.get_times(nodes), t.get_pixels(n0), t.get_node_attr(n0, "nope"),
                t.get_nodes_attr(nodes, t.features.time_key), t.get_track_id(n0),
                t.get_lineage_id(n0))
            tid = t.get_track_id(n0)
            tt = t.get_time(n0)
            ops["queries/track"] = lambda: (
                [t.get_track_neighbors(tid, x) for x in range(-1, 8)],
                [t.has_track_id_at_time(tid, x) for x in range(-1, 8)],
                t.get_track_neighbors(9999, tt), t.has_track_id_at_time(9999, tt),
                t.get_next_track_id(), t.get_next_lineage_id(), t.max_track_id,
                dict(t.track_id_to_node), t.get_available_features())
            ops["queries/deprecated"] = lambda: (
                t.get_areas(nodes), t.get_area(n0), t.node_id_to_track_id, t.time_attr,
                t.pos_attr)
        if edges:
            e0 = rng.choice(edges)
            ops["queries/edge"] = lambda: (
                t.get_edge_attr(e0, "iou"), t.get_edges_attr(edges, "iou"),
                t.get_ious(edges), t.get_iou(e0))
        return ops

    def probe(self, sess, where, k):
        import shutil

        from . import env

        t = sess.tracks
        if not hasattr(sess, "workdir"):
            sess.workdir = env.workdir("c16")
        out = []
        ops = self.operations(sess)
        names = self.rng.sample(sorted(ops), min(k, len(ops)))
        off = [x for x, (_, on) in t.annotators.all_features.items() if not on]
        if off and "queries/deprecated" in ops and "queries/deprecated" not in names \
                and self.rng.random() < 0.5:
            names.append("queries/deprecated")  # getters of features that are switched off
        cfgtag = (f"scale={'none' if t.scale is None else 'given'}/"
                  f"pos={'axes' if isinstance(t.features.position_key, list) else 'single'}/"
                  f"{'seg' if t.segmentation is not None else 'noseg'}")
        for name in names:
            before = deep(t, counters=True)
            mark = shim.REC.mark()
            err = None
            with warnings.catch_warnings():
                warnings.simplefilter("ignore")
                try:
                    ops[name]()
                except Exception as e:  # the operation may refuse; state must still be same
                    err = f"{type(e).__name__}: {str(e)[:120]}"
            after = deep(t, counters=True)
            emitted = [e for e in shim.REC.window(mark) if e[0] == "emit"]
            self.evals += 1
            self.count(f"op-{name.split('/')[0]}")
            self.keys.add(f"{name}/{cfgtag}")
            if err:
                self.count("op-raised")
                self.keys.add(f"raised/{name}/{err.split(':')[0]}")
                sess.readonly_errors = getattr(sess, "readonly_errors", [])
                sess.readonly_errors.append(f"{name}: {err}")
            if before != after:
                out.append(violation(
                    "read-only-changed-state", f"{name} ({cfgtag}) after {where} changed "
                    f"{diff_sections(before, after)}: {diff(before, after)[:5]}",
                    f"C16/changed/{name}/{'+'.join(diff_sections(before, after))}"))
                break
            if emitted:
                out.append(violation("read-only-emitted", f"{name} emitted refresh",
                                     f"C16/emitted/{name}"))
                break
        shutil.rmtree(sess.workdir, ignore_errors=True)
        sess.workdir.mkdir(parents=True, exist_ok=True)
        return out

    def finish(self, sess):
        import shutil

        if hasattr(sess, "workdir"):
            shutil.rmtree(sess.workdir, ignore_errors=True)
        return []
