"""Concrete, JSON-serialisable operations on a tracks object; their generation against the
current state (honouring the documented preconditions) and their execution."""

from __future__ import annotations

import random
import signal
import warnings
from dataclasses import dataclass
from typing import Any

import numpy as np

from . import shim
from .gen import Config, grow_blob

EDIT_KINDS = ("add_node", "delete_node", "add_edge", "delete_edge", "swap", "update_attrs",
              "paint")

DEFAULT_WEIGHTS = {
    "reload": 0,
    "rescale": 0,
    "features": 0,
    "scenario": 0,
    "prim_seg": 0,
    "ctrl": 0,
    "add_node": 3,
    "delete_node": 3,
    "add_edge": 4,
    "delete_edge": 3,
    "swap": 1.5,
    "update_attrs": 1,
    "paint": 4,
    "undo": 3,
    "redo": 2,
}


@dataclass
class Outcome:
    ok: bool
    exc_type: str | None = None
    exc_msg: str | None = None
    forceable: bool = False
    ret: Any = None
    action: Any = None
    info: dict | None = None  # driver-side facts (paint: changed pixels etc.)


# ----------------------------------------------------------------------------- helpers
def tkey(tracks):
    return tracks.features.time_key


def node_time(tracks, n):
    return int(tracks.graph.nodes[n][tracks.features.time_key])


def nodes_by_time(tracks):
    d: dict[int, list[int]] = {}
    for n in tracks.graph.nodes:
        d.setdefault(node_time(tracks, n), []).append(int(n))
    return d


def n_frames(tracks, cfg: Config):
    return tracks.segmentation.shape[0] if tracks.segmentation is not None else cfg.T


def role_of(g, n) -> str:
    if n not in g:
        return "unknown"
    ind, outd = g.in_degree(n), g.out_degree(n)
    if ind == 0 and outd == 0:
        return "isolated"
    r = []
    if outd == 2:
        r.append("dividing")
    if ind == 1:
        p = next(iter(g.predecessors(n)))
        if g.out_degree(p) == 2:
            r.append("after-division")
    if ind == 0:
        r.append("root")
    if outd == 0:
        r.append("leaf")
    if ind == 1 and outd == 1 and not r:
        r.append("interior")
    return "+".join(r) if r else "interior"


def fresh_node_id(tracks, rng, graveyard=()):
    used = set(int(n) for n in tracks.graph.nodes)
    if graveyard and rng.random() < 0.25:
        # the id of a node that existed earlier in this session (deleted, erased, undone)
        # is free again and may be given to a new node in any frame
        cand = [n for n in graveyard if n not in used
                and (n > 0 or tracks.segmentation is None)]
        if tracks.segmentation is not None:
            labs = set(int(x) for x in np.unique(tracks.segmentation))
            cand = [n for n in cand if n not in labs]
        if cand:
            return rng.choice(cand)
    if tracks.segmentation is not None:
        used |= set(int(x) for x in np.unique(tracks.segmentation))
    if tracks.segmentation is None and 0 not in used and rng.random() < 0.1:
        return 0  # a caller-chosen id of 0 is legal without a label image
    if rng.random() < 0.6:
        return max(used | {0}) + 1
    while True:
        c = rng.randrange(1, 400)
        if c not in used:
            return c


def used_track_ids(tracks):
    k = tracks.features.tracklet_key
    return sorted({tracks.graph.nodes[n].get(k) for n in tracks.graph.nodes} - {None})


# ----------------------------------------------------------------------------- generation
class OpGen:
    def __init__(self, cfg: Config, rng: random.Random, weights=None, refusal_rate=1.0):
        self.cfg = cfg
        self.rng = rng
        self.w = dict(DEFAULT_WEIGHTS)
        if weights:
            self.w.update(weights)
        self.refusal_rate = refusal_rate  # scales the probability of deliberately bad args

    def bad(self, p):
        return self.rng.random() < p * self.refusal_rate

    # -- locality: follow-up edits aim at the neighbourhood of the previous ones (defects
    #    that need two or three related edits in a row are otherwise reached too rarely)
    focus: frozenset = frozenset()
    graveyard: tuple = ()
    seen_nodes: frozenset = frozenset()

    def note(self, op, tracks):
        g = tracks.graph
        now_nodes = frozenset(int(n) for n in g.nodes)
        gone = [n for n in self.seen_nodes if n not in now_nodes]
        self.graveyard = tuple(gone)[-8:]
        self.seen_nodes = self.seen_nodes | now_nodes
        named = named_of(tracks, op)["nodes"] if op.get("op") != "features" else set()
        near = set()
        for n in named:
            if n in g:
                near.add(int(n))
                near.update(int(x) for x in g.predecessors(n))
                near.update(int(x) for x in g.successors(n))
                for p_ in list(g.predecessors(n)):
                    near.update(int(x) for x in g.successors(p_))  # siblings
        self.focus = frozenset(near) if near else self.focus

    def pick_node(self, tracks, nodes, p=0.3):
        loc = [n for n in nodes if n in self.focus]
        if loc and self.rng.random() < p:
            return self.rng.choice(loc)
        return self.rng.choice(nodes)

    # -- scripted multi-step scenarios (the sequences the properties name); every step is
    #    resolved against the state it meets, a step that cannot be resolved ends the script
    queue: list = ()
    scenario_log: list = ()

    def next(self, tracks) -> dict:
        while self.queue:
            step = self.queue.pop(0)
            op = step(tracks)
            if op is None:
                self.queue = []
                break
            return self._mark(op)
        return self._mark(self.next_random(tracks))

    def _mark(self, op):
        # ids, times and track ids handed over as numpy integers (a GUI passes what it
        # reads from arrays)
        if self.cfg.npint and op.get("op") not in ("undo", "redo", "features") \
                and self.rng.random() < 0.7:
            # what np.unique / array indexing of a label layer hands out
            op["np"] = self.rng.choice(["int64", "int64", "uint64", "int32", "uint32",
                                        "uint16", "array-edge"])
        # argument forms: an edge as a list instead of a tuple; the caller's attribute dict
        # re-used (and modified) by the caller after the call
        if op.get("op") in ("add_edge", "delete_edge") and "np" not in op \
                and self.rng.random() < 0.2:
            op["edge_as"] = "list"
        if op.get("op") in ("add_node", "update_attrs") and self.rng.random() < 0.25:
            op["caller_reuses_dict"] = True
        if op.get("op") == "add_node" and not self.cfg.seg and self.rng.random() < 0.15:
            # the application runs with warnings turned into errors: the add whose requested
            # track id is taken at that frame warns in its validation phase, so it raises
            # there and must change nothing. (Only without a label image: the measurement
            # annotators also warn from the middle of primitive edits - "cannot find label
            # ..." while the caller's stroke is half processed - and escalating those is a
            # fault injected into an edit, not a refusal by a validation step.)
            op["warnings_as_errors"] = True
        return op

    def iou_key(self, tracks):
        from .checks import iou_key

        return iou_key(tracks)

    def toggleable(self, tracks):
        """Annotator keys that may be switched while edits run (not the two id features;
        not what the dependency cannot compute for this configuration)."""
        f = tracks.features
        ks = [k for k in tracks.annotators.all_features
              if k not in (f.tracklet_key, f.lineage_key)]
        if self.cfg.ndim == 4 and not self.cfg.thick:
            ks = [k for k in ks if k != "ellipse_axis_radii"]
        if self.cfg.ndim == 3 and self.cfg.scale in ("aniso", "tscale"):
            ks = [k for k in ks if k not in ("perimeter", "circularity")]
        return sorted(ks)

    scenarios = ("reparent-history",)  # "stale" (feature switching) only where asked for

    def gen_scenario(self, tracks):
        kinds = list(self.scenarios)
        self.rng.shuffle(kinds)
        for kind in kinds:
            op = (self.gen_scenario_stale if kind == "stale"
                  else self.gen_scenario_reparent)(tracks)
            if op is not None:
                return op
        return None

    def gen_scenario_reparent(self, tracks):
        """Two order-dependent edits (cut c from its parent, give it another one), both
        undone, a new edit, then the whole history walked back and forth: every step is
        replayed from the history in a state other than the one it was recorded in if the
        history mis-orders anything."""
        rng = self.rng
        g = tracks.graph
        cs = [int(c) for c in g.nodes if g.in_degree(c) == 1]
        rng.shuffle(cs)
        for c in cs:
            p = int(next(iter(g.predecessors(c))))
            tc = node_time(tracks, c)
            qs = [int(q) for q in g.nodes if q != p and node_time(tracks, q) < tc
                  and g.out_degree(q) < 2]
            if not qs:
                continue
            q = rng.choice(qs)

            def other_edit(tr):
                for _ in range(10):
                    op = rng.choice([self.gen_update_attrs, self.gen_add_node,
                                     self.gen_delete_edge])(tr)
                    if op is not None:
                        return op
                return {"op": "undo"}

            nback = rng.randint(2, 4)
            self.queue = ([lambda tr: {"op": "add_edge", "edge": [q, c], "force": False},
                           lambda tr: {"op": "undo"}, lambda tr: {"op": "undo"}, other_edit]
                          + [lambda tr: {"op": "undo"}] * nback
                          + [lambda tr: {"op": "redo"}] * rng.randint(1, nback))
            return {"op": "delete_edge", "edge": [p, c]}
        return None

    def gen_scenario_stale(self, tracks):
        """'value saved while stale': disable k - change a mask - delete the element -
        enable k (bulk recomputation cannot see the deleted element) - undo (- redo - undo)."""
        rng = self.rng
        seg = tracks.segmentation
        if seg is None:
            return None
        g = tracks.graph
        nodes = [int(n) for n in g.nodes]
        if not nodes:
            return None
        enabled = [k for k in self.toggleable(tracks) if k in tracks.annotators.features]
        keys = self.scenario_keys(tracks, enabled)
        if not keys:
            return None
        k = rng.choice(keys)
        # sometimes two features go off together and come back one by one
        others = [x for x in keys if x != k]
        k2 = rng.choice(others) if others and rng.random() < 0.4 else None
        ik = self.iou_key(tracks)
        if k == ik:
            cands = [n for n in nodes if g.degree(n) > 0]
        else:
            cands = nodes
        if not cands:
            return None
        n = rng.choice(cands)
        t = node_time(tracks, n)
        ctx = {"k": k, "n": n, "t": t}

        def s_disable(tr):
            return {"op": "features", "disable": [k] + ([k2] if k2 else [])}

        def s_mask(tr):
            if n not in tr.graph:
                return None
            own = np.argwhere(tr.segmentation[t] == n)
            free = np.argwhere(tr.segmentation[t] == 0)
            if len(own) >= 2 and (rng.random() < 0.5 or len(free) == 0):
                cut = own[: rng.randint(1, len(own) - 1)]
                cells, label = [tuple(int(x) for x in c) for c in cut], 0
            elif len(free):
                # grow onto free cells next to the mask if there are any, else anywhere
                near = [c for c in free if np.abs(own - c).sum(axis=1).min() == 1]
                pick = near if near else list(free)
                rng.shuffle(pick)
                cells = [tuple(int(x) for x in c) for c in pick[: rng.randint(1, 3)]]
                label = n
            else:
                return None
            return {"op": "paint", "t": int(t), "label": int(label),
                    "cells": sorted(list(c) for c in cells),
                    "track_id": int(tr.get_track_id(n)), "force": False, "order": "asc"}

        def s_delete(tr):
            if n not in tr.graph:
                return None
            es = list(tr.graph.in_edges(n)) + list(tr.graph.out_edges(n))
            if k == ik and es and rng.random() < 0.6:
                u, v = rng.choice(es)
                return {"op": "delete_edge", "edge": [int(u), int(v)]}
            return {"op": "delete_node", "node": int(n)}

        def s_enable(tr):
            return {"op": "features", "enable": [k], "recompute": True}

        # variant without the deletion: the element stays, only its masks change while the
        # feature is off (a re-computation must then overwrite whatever value is stored)
        if rng.random() < 0.35:
            steps = [s_disable, s_mask, s_mask, s_enable]
            if k2:
                steps.append(lambda tr: {"op": "features", "enable": [k2], "recompute": True})
            self.queue = steps[1:]
            return s_disable(tracks)
        steps = [s_disable, s_mask, s_delete, s_enable]
        if k2:
            steps.append(lambda tr: {"op": "features", "enable": [k2], "recompute": True})
        steps.append(lambda tr: {"op": "undo"})
        if rng.random() < 0.5:
            steps += [lambda tr: {"op": "redo"}, lambda tr: {"op": "undo"}]
        self.queue = steps[1:]
        return s_disable(tracks)

    def scenario_keys(self, tracks, enabled):
        return enabled

    def next_random(self, tracks) -> dict:
        rng = self.rng
        kinds = [k for k in self.w if self.w[k] > 0]
        if tracks.segmentation is None and "paint" in kinds:
            kinds.remove("paint")
        for _ in range(20):
            kind = rng.choices(kinds, weights=[self.w[k] for k in kinds])[0]
            op = getattr(self, "gen_" + kind)(tracks)
            if op is not None:
                return op
        return {"op": "undo"}

    # -- nodes
    def gen_add_node(self, tracks):
        rng, cfg = self.rng, self.cfg
        T = n_frames(tracks, cfg)
        t = rng.randrange(T)
        op: dict[str, Any] = {"op": "add_node", "time": t, "force": rng.random() < 0.5}
        op["node"] = fresh_node_id(tracks, rng, self.graveyard)
        if self.bad(0.06) and tracks.graph.number_of_nodes():
            op["node"] = int(rng.choice(list(tracks.graph.nodes)))
        tids = used_track_ids(tracks)
        nxt = tracks.get_next_track_id()
        r = rng.random()
        ftids = sorted({int(tracks.get_track_id(n)) for n in self.focus
                        if n in tracks.graph and tracks.get_track_id(n) is not None})
        if ftids and r < 0.2:
            op["track_id"] = int(rng.choice(ftids))
        elif tids and r < 0.6:
            op["track_id"] = int(rng.choice(tids))
        elif r < 0.85:
            op["track_id"] = int(nxt)
        else:
            op["track_id"] = int(nxt + rng.randint(2, 40))
        r2 = rng.random()
        if r2 < 0.2:
            self._aim_at_division(tracks, op, "time")
            t = op["time"]
        elif r2 < 0.38:
            # into the gap of a frame-skipping edge, on the track that runs through it
            g = tracks.graph
            skips = [(u, v) for u, v in g.edges
                     if node_time(tracks, v) - node_time(tracks, u) > 1]
            if skips:
                u, v = rng.choice(skips)
                op["track_id"] = int(tracks.get_track_id(v if g.out_degree(u) == 2 else u))
                op["time"] = rng.randrange(node_time(tracks, u) + 1, node_time(tracks, v))
                t = op["time"]
        elif r2 < 0.55:
            # extend a track backwards (before its first node) or forwards (after its last);
            # tracks of the nodes touched last are preferred
            k_ = tracks.features.tracklet_key
            pool = ftids if ftids and rng.random() < 0.6 else tids
            if pool:
                tid_ = int(rng.choice(pool))
                ts_ = [node_time(tracks, n) for n in tracks.graph.nodes
                       if tracks.graph.nodes[n].get(k_) == tid_]
                if ts_:
                    before = list(range(0, min(ts_)))
                    after = list(range(max(ts_) + 1, T))
                    side = before if before and (not after or rng.random() < 0.5) else after
                    if side:
                        op["track_id"] = tid_
                        op["time"] = rng.choice(side)
                        t = op["time"]
        if tracks.segmentation is not None:
            occ = tracks.segmentation[t] != 0
            cells = grow_blob(rng, occ, rng.choice([1, 2, 3, 5, 8]))
            if not cells:
                return None
            op["pixels"] = [list(c) for c in cells]
            if rng.random() < 0.12:
                # the caller passes measurements next to the pixels (allowed: "attributes
                # includes times, track_ids, and optionally positions"); the stored values
                # must still be the ones of the mask
                op["pos"] = [round(rng.uniform(0, s - 1), 3) for s in tracks.segmentation.shape[1:]]
                if rng.random() < 0.5:
                    op["area"] = float(rng.randint(1, 50))
            if self.bad(0.05):
                del op["pixels"]  # neither pixels nor position: refused (late)
                op.pop("pos", None)
            elif self.bad(0.04):
                # a pixel outside the array: the write is refused (IndexError)
                c = list(op["pixels"][-1])
                d = rng.randrange(len(c))
                c[d] = tracks.segmentation.shape[1 + d] + rng.randint(0, 3)
                op["pixels"].append(c)
            elif self.bad(0.03):
                op["time"] = T + rng.randint(0, 2)  # frame beyond the array
        else:
            op["pos"] = [round(rng.uniform(0, s - 1), 3) for s in cfg.frame_shape()]
            if self.bad(0.06):
                del op["pos"]
            elif self.bad(0.04):
                # pixels although the tracks have no segmentation: refused (ValueError)
                op["pixels"] = [[rng.randrange(s) for s in cfg.frame_shape()]]
        if self.bad(0.03):
            op["omit"] = rng.choice(["time", "track_id"])
        return op

    def _conflict_track_at(self, tracks, t):
        """A track id whose use at time t meets an upstream / downstream division."""
        g = tracks.graph
        cands = []
        for d in g.nodes:
            if g.out_degree(d) != 2:
                continue
            if node_time(tracks, d) < t:
                cands.append(int(tracks.get_track_id(d)))
            for c in g.successors(d):
                if t < node_time(tracks, c):
                    cands.append(int(tracks.get_track_id(c)))
        return self.rng.choice(cands) if cands else None

    def _aim_at_division(self, tracks, op, tkey):
        """Bias: the track of a dividing node, at a later time (upstream-division conflict),
        or the track of a child of a dividing node at an earlier time (downstream conflict)."""
        rng = self.rng
        g = tracks.graph
        div = [n for n in g.nodes if g.out_degree(n) == 2]
        if not div:
            return
        d = rng.choice(div)
        T = n_frames(tracks, self.cfg)
        if rng.random() < 0.5:
            later = [t for t in range(node_time(tracks, d) + 1, T)]
            if later:
                op["track_id"] = int(tracks.get_track_id(d))
                op[tkey] = rng.choice(later)
        else:
            c = rng.choice(list(g.successors(d)))
            between = [t for t in range(node_time(tracks, d), node_time(tracks, c))]
            if between:
                op["track_id"] = int(tracks.get_track_id(c))
                op[tkey] = rng.choice(between)

    def gen_delete_node(self, tracks):
        rng = self.rng
        nodes = list(tracks.graph.nodes)
        if self.bad(0.05) or not nodes:
            return {"op": "delete_node", "node": 9000 + rng.randrange(50)}
        op = {"op": "delete_node", "node": int(self.pick_node(tracks, [int(n) for n in nodes]))}
        if tracks.segmentation is not None and rng.random() < 0.2:
            op["with_pixels"] = True  # the caller hands over the node's pixels ("if known")
        return op

    # -- edges
    def gen_add_edge(self, tracks):
        rng = self.rng
        nodes = [int(n) for n in tracks.graph.nodes]
        if len(nodes) < 1:
            return None
        force = rng.random() < 0.45
        if self.bad(0.04):
            e = [int(rng.choice(nodes)), 9000 + rng.randrange(50)]
            rng.shuffle(e)
            return {"op": "add_edge", "edge": e, "force": force}
        if force and rng.random() < 0.3:
            # "this is not a division": a daughter is re-attached (forced) to a node of the
            # other daughter's branch, preferably its end
            g = tracks.graph
            kids = [v for v in nodes if g.in_degree(v) == 1
                    and g.out_degree(next(iter(g.predecessors(v)))) == 2]
            if kids:
                v = rng.choice(kids)
                par = next(iter(g.predecessors(v)))
                sib = next(x for x in g.successors(par) if x != v)
                branch, stack = [], [sib]
                while stack:
                    x = stack.pop()
                    branch.append(int(x))
                    stack.extend(g.successors(x))
                cand = [x for x in branch if node_time(tracks, x) < node_time(tracks, v)]
                if cand:
                    tails = [x for x in cand if g.out_degree(x) == 0]
                    u = rng.choice(tails) if tails and rng.random() < 0.6 else rng.choice(cand)
                    return {"op": "add_edge", "edge": [int(u), int(v)], "force": True}
        u = self.pick_node(tracks, nodes)
        r = rng.random()
        tu = node_time(tracks, u)
        if r < 0.65:
            later = [n for n in nodes if node_time(tracks, n) > tu]
            if not later:
                return None
            # bias to near frames
            later.sort(key=lambda n: (node_time(tracks, n) - tu, rng.random()))
            v = later[0] if rng.random() < 0.5 else rng.choice(later)
        else:
            v = rng.choice(nodes)  # any order, incl. same frame and u == v
        return {"op": "add_edge", "edge": [u, v], "force": force}

    def gen_delete_edge(self, tracks):
        rng = self.rng
        edges = list(tracks.graph.edges)
        nodes = [int(n) for n in tracks.graph.nodes]
        if edges and not self.bad(0.1):
            loc = [e for e in edges if e[0] in self.focus or e[1] in self.focus]
            u, v = rng.choice(loc) if loc and rng.random() < 0.3 else rng.choice(edges)
            return {"op": "delete_edge", "edge": [int(u), int(v)]}
        if len(nodes) >= 2:
            u, v = rng.sample(nodes, 2)
            return {"op": "delete_edge", "edge": [u, v]}
        return {"op": "delete_edge", "edge": [9001, 9002]}

    def gen_swap(self, tracks):
        rng = self.rng
        nodes = [int(n) for n in tracks.graph.nodes]
        if len(nodes) < 2:
            return None
        if self.bad(0.04):
            k = rng.choice([1, 3])
            return {"op": "swap", "nodes": [int(rng.choice(nodes)) for _ in range(k)]}
        withpred = [n for n in nodes if tracks.graph.in_degree(n) > 0]
        a = rng.choice(withpred) if withpred and rng.random() < 0.8 else rng.choice(nodes)
        ta = node_time(tracks, a)
        near = [n for n in nodes if n != a and abs(node_time(tracks, n) - ta) <= 1]
        b = rng.choice(near) if near and rng.random() < 0.8 else rng.choice(nodes)
        return {"op": "swap", "nodes": [a, b]}

    def gen_update_attrs(self, tracks):
        rng = self.rng
        nodes = [int(n) for n in tracks.graph.nodes]
        if not nodes:
            return None
        n = rng.choice(nodes) if not self.bad(0.05) else 9000 + rng.randrange(50)
        if self.bad(0.2):
            prot = [tracks.features.time_key] + list(tracks.annotators.all_features.keys())
            key = rng.choice(prot)
            val: Any = rng.randint(0, 5)
        else:
            key = rng.choice(["score", "note", "flag"])
            # falsy values on purpose (0, 0.0, "", False are values, not "missing")
            val = {"score": rng.choice([0.0, 0, round(rng.random(), 3), round(rng.random(), 3)]),
                   "note": rng.choice(["a", "b", ""]),
                   "flag": rng.random() < 0.5}[key]
        attrs = {key: val}
        if rng.random() < 0.3:
            # several keys in one call; a protected one (if any) comes first or last
            k2 = rng.choice([x for x in ["score", "note", "flag"] if x != key])
            other = {k2: {"score": round(rng.random(), 3), "note": "z", "flag": True}[k2]}
            attrs = {**other, **attrs} if rng.random() < 0.5 else {**attrs, **other}
        elif rng.random() < 0.05:
            attrs = {}  # an update that names no attribute is still a (trivial) top-level action
        return {"op": "update_attrs", "node": n, "attrs": attrs}

    # -- paint
    def gen_paint(self, tracks):
        rng = self.rng
        seg = tracks.segmentation
        if seg is None:
            return None
        T = seg.shape[0]
        byt = nodes_by_time(tracks)
        t = rng.randrange(T)
        if byt and rng.random() < 0.7:
            t = rng.choice(list(byt))
        here = byt.get(t, [])
        shape = seg.shape[1:]
        r = rng.random()
        if r < 0.25:
            label = 0
        elif r < 0.6 and here:
            label = int(rng.choice(here))
        else:
            label = fresh_node_id(tracks, rng, self.graveyard)
        # stroke geometry
        cells: set[tuple] = set()
        mode = rng.random()
        if mode < 0.35 and here:
            # cover one or several whole nodes (plus sometimes a margin)
            k = 1 if rng.random() < 0.7 else min(len(here), 2)
            for n in rng.sample(here, k):
                if n == label:
                    continue
                idx = np.argwhere(seg[t] == n)
                part = rng.random() < 0.4
                for c in idx:
                    if part and rng.random() < 0.5:
                        continue
                    cells.add(tuple(int(x) for x in c))
            if rng.random() < 0.4:
                cells |= set(self._rect(rng, shape))
        elif mode < 0.8:
            cells = set(self._rect(rng, shape))
        else:
            occ = np.zeros(shape, bool)
            cells = set(grow_blob(rng, occ, rng.choice([1, 3, 6, 10])))
        if not cells:
            return None
        tids = used_track_ids(tracks)
        nxt = int(tracks.get_next_track_id())
        rr = rng.random()
        if tids and rr < 0.55:
            ctid = int(rng.choice(tids))
        elif rr < 0.9:
            ctid = nxt
        else:
            ctid = nxt + rng.randint(1, 30)
        if label != 0 and label not in tracks.graph and rng.random() < 0.3:
            c = self._conflict_track_at(tracks, t)
            if c is not None:
                ctid = c
        return {
            "op": "paint",
            "t": int(t),
            "label": int(label),
            "cells": sorted(list(c) for c in cells),
            "track_id": ctid,
            "force": rng.random() < 0.5,
            "order": rng.choice(["asc", "desc"]),
            **({"noop_call": True} if label == 0 and rng.random() < 0.5 else {}),
            **({"report_unchanged": True} if label != 0 and rng.random() < 0.25 else {}),
            **(self._second_frame(tracks, t) if label == 0 and rng.random() < 0.3 else {}),
            **({"via": "controller"} if rng.random() < 0.1 else {}),
        }

    def _second_frame(self, tracks, t):
        """An erase stroke may cover several frames (a brush that extends along time): a
        second frame with cells that hit part or all of a node there."""
        rng = self.rng
        seg = tracks.segmentation
        byt = nodes_by_time(tracks)
        others = [x for x in byt if x != t]
        if not others:
            return {}
        t2 = rng.choice(others)
        n = rng.choice(byt[t2])
        idx = [tuple(int(x) for x in c) for c in np.argwhere(seg[t2] == n)]
        if not idx:
            return {}
        if rng.random() < 0.6 and len(idx) > 1:
            idx = idx[: rng.randint(1, len(idx) - 1)]  # part of the node only
        return {"also": [{"t": int(t2), "cells": [list(c) for c in idx]}]}

    @staticmethod
    def _rect(rng, shape):
        lo = [rng.randrange(s) for s in shape]
        ext = [rng.choice([1, 2, 3, 4, 6]) for _ in shape]
        rngs = [range(l, min(l + e, s)) for l, e, s in zip(lo, ext, shape)]
        out = [()]
        for r in rngs:
            out = [o + (i,) for o in out for i in r]
        return out

    toggle_lineage = False  # opt-in: also switch the lineage feature off / on alone

    def gen_features(self, tracks):
        """Default feature switching (sub-classes refine it): one toggleable key off, or on
        with recomputation."""
        rng = self.rng
        ks = self.toggleable(tracks)
        lk = tracks.features.lineage_key
        if self.toggle_lineage and rng.random() < 0.25:
            if lk in tracks.annotators.features:
                return {"op": "features", "disable": [lk]}
            return {"op": "features", "enable": [lk], "recompute": True}
        if not ks:
            return None
        k = rng.choice(ks)
        if k in tracks.annotators.features and rng.random() < 0.6:
            return {"op": "features", "disable": [k]}
        return {"op": "features", "enable": [k], "recompute": True}

    def gen_reload(self, tracks):
        return {"op": "reload"}

    def gen_undo(self, tracks):
        if self.rng.random() < 0.12:
            return {"op": "undo", "via": "controller"}
        return {"op": "undo"}

    def gen_redo(self, tracks):
        if self.rng.random() < 0.12:
            return {"op": "redo", "via": "controller"}
        return {"op": "redo"}

    def gen_ctrl(self, tracks):
        """A call of the deprecated TracksController with SEVERAL elements: every element
        becomes its own top-level user action (own history step, own refresh)."""
        rng = self.rng
        g = tracks.graph
        nodes = [int(n) for n in g.nodes]
        what = rng.choice(["add_nodes", "delete_nodes", "add_edges", "delete_edges",
                           "update_attrs"])
        if what == "add_nodes":
            saved, self.refusal_rate = self.refusal_rate, 0.0
            try:
                parts = []
                for _ in range(rng.randint(2, 3)):
                    op = self.gen_add_node(tracks)
                    if op is None or "omit" in op:
                        continue
                    if any(op["node"] == q["node"] for q in parts):
                        continue
                    if "pixels" in op and any(
                            q["time"] == op["time"] and
                            {tuple(c) for c in q["pixels"]} & {tuple(c) for c in op["pixels"]}
                            for q in parts):
                        continue
                    op.pop("pos", None) if "pixels" in op else None
                    op.pop("area", None)
                    op.pop("caller_reuses_dict", None)
                    parts.append(op)
            finally:
                self.refusal_rate = saved
            if len(parts) < 2:
                return None
            return {"op": "ctrl", "what": what, "parts": parts, "force": rng.random() < 0.4}
        if what == "delete_nodes":
            if len(nodes) < 2:
                return None
            k = rng.randint(2, min(3, len(nodes)))
            first = self.pick_node(tracks, nodes)
            rest = [n for n in nodes if n != first]
            near = [n for n in rest if n in self.focus or g.has_edge(first, n)
                    or g.has_edge(n, first)]
            sel = [first]
            while len(sel) < k and rest:
                n = rng.choice(near) if near and rng.random() < 0.6 else rng.choice(rest)
                if n not in sel:
                    sel.append(n)
                rest = [x for x in rest if x != n]
                near = [x for x in near if x != n]
            return {"op": "ctrl", "what": what, "nodes": sel}
        if what == "add_edges":
            es = []
            for _ in range(rng.randint(1, 2)):
                op = self.gen_add_edge(tracks)
                if op and op["edge"] not in es and all(n in g for n in op["edge"]):
                    es.append(op["edge"])
            if not es:
                return None
            return {"op": "ctrl", "what": what, "edges": es, "force": rng.random() < 0.4}
        if what == "delete_edges":
            edges = [[int(u), int(v)] for u, v in g.edges]
            if not edges:
                return None
            return {"op": "ctrl", "what": what,
                    "edges": rng.sample(edges, min(len(edges), rng.randint(1, 2)))}
        if not nodes:
            return None
        sel = rng.sample(nodes, min(len(nodes), rng.randint(1, 3)))
        key = rng.choice(["score", "note"])
        vals = [round(rng.random(), 3) if key == "score" else rng.choice(["p", "q", ""])
                for _ in sel]
        attrs = {key: vals}
        if self.bad(0.25):
            # a managed key (or time) among the attributes: the primitive behind the
            # controller must refuse it as well
            prot = [tracks.features.time_key] + list(tracks.annotators.all_features.keys())
            attrs[rng.choice(prot)] = [rng.randint(0, 5) for _ in sel]
        return {"op": "ctrl", "what": what, "nodes": sel, "attrs": attrs}

    def gen_prim_seg(self, tracks):
        """Primitive UpdateNodeSeg on a random node: remove part / ALL of its mask or add
        free pixels; executed together with its inverse."""
        rng = self.rng
        seg = tracks.segmentation
        nodes = [int(n) for n in tracks.graph.nodes]
        if seg is None or not nodes:
            return None
        n = rng.choice(nodes)
        t = node_time(tracks, n)
        own = [tuple(int(x) for x in c) for c in np.argwhere(seg[t] == n)]
        free = [tuple(int(x) for x in c) for c in np.argwhere(seg[t] == 0)]
        r = rng.random()
        if r < 0.4 and own:
            cells, added = own, False  # the whole mask
        elif r < 0.7 and len(own) >= 2:
            cells, added = own[: rng.randint(1, len(own) - 1)], False
        elif free:
            cells, added = rng.sample(free, min(len(free), rng.randint(1, 3))), True
        else:
            return None
        return {"op": "prim_seg", "node": n, "t": int(t), "cells": [list(c) for c in cells],
                "added": added}


# ----------------------------------------------------------------------------- execution
class Hang(BaseException):
    """Raised by the per-operation watchdog (an op normally takes milliseconds)."""


def _on_alarm(signum, frame):
    raise Hang()


OP_WATCHDOG_S = 20.0


def execute(tracks, op: dict) -> Outcome:
    """execute_inner under a generous wall-clock watchdog. A firing watchdog is reported
    as outcome HANG (the session is then abandoned; the state is not trusted)."""
    old = signal.signal(signal.SIGALRM, _on_alarm)
    signal.setitimer(signal.ITIMER_REAL, OP_WATCHDOG_S)
    try:
        return execute_inner(tracks, op)
    except Hang:
        return Outcome(ok=False, exc_type="HANG", exc_msg="operation watchdog fired", info={})
    finally:
        signal.setitimer(signal.ITIMER_REAL, 0)
        signal.signal(signal.SIGALRM, old)


def _caller_dict(tracks, which: str) -> dict:
    """A dict object that the simulated caller owns and re-uses across calls."""
    store = tracks.__dict__.setdefault("_fv_caller_dicts", {})
    return store.setdefault(which, {})


def _pixels_tuple(t, cells):
    arr = np.array(cells, dtype=np.int64).reshape(len(cells), -1)
    return (np.full(len(cells), t, dtype=np.int64), *[arr[:, d] for d in range(arr.shape[1])])


def named_of(tracks, op: dict) -> dict:
    """Nodes and track ids an op names (for the frame clauses of C04/C05)."""
    k = op["op"]
    if k in ("reload", "rescale"):
        return {"nodes": set(), "tids": set()}
    nodes: set[int] = set()
    tids: set[int] = set()
    if k == "add_node":
        nodes.add(op["node"])
        if "track_id" in op:
            tids.add(op["track_id"])
    elif k == "delete_node":
        nodes.add(op["node"])
    elif k in ("add_edge", "delete_edge"):
        nodes.update(op["edge"])
    elif k == "swap":
        nodes.update(op["nodes"])
    elif k in ("update_attrs", "prim_seg"):
        nodes.add(op["node"])
    elif k == "ctrl":
        for q in op.get("parts", []):
            nodes.add(q["node"])
            tids.add(q["track_id"])
        nodes.update(op.get("nodes", []))
        for e in op.get("edges", []):
            nodes.update(e)
    elif k == "paint":
        nodes.add(op["label"])
        tids.add(op["track_id"])
        if tracks.segmentation is not None:
            seg = tracks.segmentation
            for c in op["cells"]:
                v = int(seg[(op["t"], *c)])
                if v:
                    nodes.add(v)
            for part in op.get("also", []):
                for c in part["cells"]:
                    v = int(seg[(part["t"], *c)])
                    if v:
                        nodes.add(v)
    return {"nodes": nodes, "tids": tids}


def execute_inner(tracks, op: dict) -> Outcome:
    """Run one op against the real code. Any exception from the action is a refusal."""
    from funtracks.user_actions import (
        UserAddEdge,
        UserAddNode,
        UserDeleteEdge,
        UserDeleteNode,
        UserSwapPredecessors,
        UserUpdateNodeAttrs,
        UserUpdateSegmentation,
    )

    k = op["op"]
    info: dict = {}
    restore = None
    npk = op.get("np")
    if npk in (True, "array-edge"):
        npk_dt = np.int64
    elif npk:
        npk_dt = np.dtype(npk).type
    def I(x):  # noqa: E741, N802
        if not npk:
            return x
        if x < 0 and npk_dt(0).dtype.kind != "i":
            return x
        try:
            return npk_dt(x)
        except OverflowError:  # the id does not fit this dtype: a caller would hold an int64
            return np.int64(x)
    try:
        with warnings.catch_warnings():
            warnings.simplefilter("ignore")
            if op.get("warnings_as_errors"):
                warnings.simplefilter("error", UserWarning)
            if k == "add_node":
                attrs: dict[str, Any] = {}
                if op.get("caller_reuses_dict"):
                    # one dict object owned by the caller: emptied of the keys the caller
                    # itself manages and re-filled; whatever the library wrote into it
                    # during an earlier call is still there (callers do not know about it)
                    attrs = _caller_dict(tracks, "node")
                    for key in (tracks.features.time_key, tracks.features.tracklet_key):
                        attrs.pop(key, None)
                    pk_ = tracks.features.position_key
                    for key in (pk_ if isinstance(pk_, list) else [pk_]):
                        attrs.pop(key, None)
                    attrs.pop("area", None)
                if op.get("omit") != "time":
                    attrs[tracks.features.time_key] = I(op["time"])
                if op.get("omit") != "track_id":
                    attrs[tracks.features.tracklet_key] = I(op["track_id"])
                pixels = None
                if "pixels" in op:
                    pixels = _pixels_tuple(op["time"], op["pixels"])
                if "pos" in op:
                    pk = tracks.features.position_key
                    if isinstance(pk, list):
                        for a, p in zip(pk, op["pos"]):
                            attrs[a] = p
                    else:
                        attrs[pk] = list(op["pos"])
                if "area" in op and "area" in tracks.annotators.all_features:
                    attrs["area"] = op["area"]
                a = UserAddNode(tracks, I(op["node"]), attrs, pixels=pixels,
                                force=op.get("force", False))
                info["attrs_after"] = dict(attrs)
            elif k == "delete_node":
                if op.get("with_pixels") and op["node"] in tracks.graph \
                        and tracks.segmentation is not None:
                    a = UserDeleteNode(tracks, I(op["node"]),
                                       pixels=tracks.get_pixels(op["node"]))
                else:
                    a = UserDeleteNode(tracks, I(op["node"]))
            elif k == "add_edge":
                e = np.array(op["edge"]) if npk == "array-edge" else \
                    list(op["edge"]) if op.get("edge_as") == "list" else \
                    tuple(I(x) for x in op["edge"])
                a = UserAddEdge(tracks, e, force=op.get("force", False))
            elif k == "delete_edge":
                e = np.array(op["edge"]) if npk == "array-edge" else \
                    list(op["edge"]) if op.get("edge_as") == "list" else \
                    tuple(I(x) for x in op["edge"])
                a = UserDeleteEdge(tracks, e)
            elif k == "swap":
                a = UserSwapPredecessors(tracks, tuple(I(x) for x in op["nodes"]))
            elif k == "update_attrs":
                if op.get("caller_reuses_dict"):
                    d_ = _caller_dict(tracks, "attrs")
                    d_.clear()
                    d_.update(op["attrs"])
                    try:
                        a = UserUpdateNodeAttrs(tracks, I(op["node"]), d_)
                    finally:
                        # ... and the caller goes on using its dict for something else
                        d_.clear()
                        d_.update({"note": "caller-changed-this-later", "score": -1.0})
                else:
                    a = UserUpdateNodeAttrs(tracks, I(op["node"]), dict(op["attrs"]))
            elif k == "ctrl":
                from funtracks.data_model.tracks_controller import TracksController

                c = TracksController(tracks)
                w = op["what"]
                if w == "add_nodes":
                    parts = op["parts"]
                    attrs_l: dict[str, list] = {
                        tracks.features.time_key: [q["time"] for q in parts],
                        tracks.features.tracklet_key: [q["track_id"] for q in parts]}
                    pixels_l = None
                    if "pixels" in parts[0]:
                        attrs_l["node_id"] = [q["node"] for q in parts]
                        pixels_l = [_pixels_tuple(q["time"], q["pixels"]) for q in parts]
                    else:
                        pk = tracks.features.position_key
                        if isinstance(pk, list):
                            for i_, a_ in enumerate(pk):
                                attrs_l[a_] = [q["pos"][i_] for q in parts]
                        else:
                            attrs_l[pk] = [list(q["pos"]) for q in parts]
                    c.add_nodes(attrs_l, pixels_l, force=op.get("force", False))
                elif w == "delete_nodes":
                    c.delete_nodes(list(op["nodes"]))
                elif w == "add_edges":
                    c.add_edges([tuple(e) for e in op["edges"]], force=op.get("force", False))
                elif w == "delete_edges":
                    c.delete_edges([tuple(e) for e in op["edges"]])
                else:
                    c.update_node_attrs(list(op["nodes"]), dict(op["attrs"]))
                return Outcome(ok=True, ret="ctrl", info=info)
            elif k == "prim_seg":
                # primitive UpdateNodeSeg (all or part of a node's mask removed, or pixels
                # added) immediately inverted: the session state is left where it was
                from funtracks.actions import UpdateNodeSeg

                n = op["node"]
                px = _pixels_tuple(op["t"], op["cells"])
                a = UpdateNodeSeg(tracks, n, px, added=op["added"])
                info["mid"] = {"seg_pixels_of_node": int((tracks.segmentation[op["t"]] == n).sum())}
                a.inverse()
                return Outcome(ok=True, ret="prim", info=info)
            elif k == "paint":
                seg = tracks.segmentation
                t, label = op["t"], op["label"]
                cells = [tuple(c) for c in op["cells"]]
                prev = [int(seg[(t, *c)]) for c in cells]
                changed = [(c, p) for c, p in zip(cells, prev) if p != label]
                info["changed"] = len(changed)
                if not changed and op.get("noop_call") and label == 0:
                    info["painted"] = seg.copy()
                    info["before"] = seg.copy()
                    info["prev_labels"] = [0]
                    a = UserUpdateSegmentation(tracks, 0, [(_pixels_tuple(t, cells), 0)],
                                               I(op["track_id"]), force=op.get("force", False))
                    return Outcome(ok=True, action=a, info=info)
                if not changed:
                    return Outcome(ok=True, ret="noop", info=info)
                groups: dict[int, list] = {}
                for c, p in changed:
                    groups.setdefault(p, []).append(c)
                extra_groups = []  # (frame, previous label, cells) of the other frames
                if label == 0:
                    for part in op.get("also", []):
                        g2: dict[int, list] = {}
                        for c in part["cells"]:
                            pv = int(seg[(part["t"], *c)])
                            if pv != 0:
                                g2.setdefault(pv, []).append(tuple(c))
                        extra_groups += [(part["t"], pv, cs) for pv, cs in g2.items()]
                before = seg.copy()
                if op.get("noop_call"):
                    # a stroke that changes nothing still reaches the action (label 0 over
                    # background): one empty step, one refresh
                    pass
                idx = _pixels_tuple(t, [c for c, _ in changed])
                if extra_groups:
                    parts = [idx] + [_pixels_tuple(t2, cs) for t2, _, cs in extra_groups]
                    idx = tuple(np.concatenate([p[d] for p in parts])
                                for d in range(len(idx)))
                seg[idx] = label  # the caller paints first
                info["painted"] = seg.copy()
                info["before"] = before
                info["prev_labels"] = sorted(groups)
                restore = (idx, before[idx].copy())
                keys = sorted(groups, reverse=(op.get("order") == "desc"))
                updated = [(_pixels_tuple(t, groups[p]), p) for p in keys]
                updated += [(_pixels_tuple(t2, cs), pv) for t2, pv, cs in extra_groups]
                same = [c for c, p in zip(cells, prev) if p == label]
                if op.get("report_unchanged") and same and label != 0:
                    # the brush also went over pixels that already carried the label; some
                    # front ends report them too (previous value == new value)
                    updated.append((_pixels_tuple(t, same), label))
                if extra_groups:
                    info["prev_labels"] = sorted(set(info["prev_labels"])
                                                 | {pv for _, pv, _ in extra_groups})
                if op.get("via") == "controller":
                    from funtracks.data_model.tracks_controller import TracksController

                    TracksController(tracks).update_segmentations(
                        I(label), updated, t, I(op["track_id"]), force=op.get("force", False))
                    a = tracks.action_history.undo_stack[-1]
                else:
                    a = UserUpdateSegmentation(tracks, I(label), updated, I(op["track_id"]),
                                               force=op.get("force", False))
            elif k == "rescale":
                tracks.scale = list(op["scale"])
                from funtracks.annotators import RegionpropsAnnotator

                ann = next((a_ for a_ in tracks.annotators
                            if isinstance(a_, RegionpropsAnnotator)), None)
                on = list(ann.features) if ann is not None else []
                if on:
                    tracks.enable_features(on, recompute=True)
                return Outcome(ok=True, ret="rescale", info=info)
            elif k == "features":
                if op.get("enable"):
                    tracks.enable_features(list(op["enable"]),
                                           recompute=op.get("recompute", True))
                if op.get("disable"):
                    tracks.disable_features(list(op["disable"]))
                return Outcome(ok=True, ret="features", info=info)
            elif k in ("undo", "redo"):
                if op.get("via") == "controller":
                    # the deprecated compatibility wrapper
                    from funtracks.data_model.tracks_controller import TracksController

                    r = getattr(TracksController(tracks), k)()
                else:
                    r = getattr(tracks, k)()
                return Outcome(ok=True, ret=r, info=info)
            else:
                raise ValueError(f"unknown op {k}")
        return Outcome(ok=True, action=a, info=info)
    except Exception as e:  # refusal (or crash) inside the library
        if k == "paint" and restore is not None:
            # the caller of the paint-driven update restores the pixels it painted
            tracks.segmentation[restore[0]] = restore[1]
        if isinstance(e, ValueError) and str(e).startswith("unknown op"):
            raise
        return Outcome(ok=False, exc_type=type(e).__name__, exc_msg=str(e)[:300],
                       forceable=bool(getattr(e, "forceable", False)), info=info)
