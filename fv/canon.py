"""Canonical observable state of a Tracks object, built through public observers only."""

from __future__ import annotations

import hashlib
from typing import Any

import numpy as np


def norm(v: Any) -> Any:
    if v is None:
        return None
    if isinstance(v, np.generic):
        v = v.item()
    if isinstance(v, (list, tuple, np.ndarray)):
        return tuple(norm(x) for x in v)
    if isinstance(v, float) and v != v:
        return "NaN"
    if isinstance(v, dict):
        return tuple(sorted((str(k), norm(x)) for k, x in v.items()))
    return v


def seg_digest(seg: np.ndarray | None):
    if seg is None:
        return None
    a = np.ascontiguousarray(np.asarray(seg).astype(np.int64))
    return (tuple(a.shape), hashlib.sha1(a.tobytes()).hexdigest())


def canon(tracks) -> dict:
    """nodes/edges with every *registered* feature, plus the segmentation digest."""
    g = tracks.graph
    nkeys = list(tracks.features.node_features)
    ekeys = list(tracks.features.edge_features)
    nodes = {}
    for n in g.nodes():
        nodes[int(n)] = {k: norm(tracks.get_node_attr(n, k)) for k in nkeys}
    edges = {}
    for u, v in g.edges():
        edges[(int(u), int(v))] = {k: norm(tracks.get_edge_attr((u, v), k)) for k in ekeys}
    d = {"nodes": nodes, "edges": edges, "seg": seg_digest(tracks.segmentation)}
    # every attribute stored on the graph, registered or not (custom attributes set through
    # UserUpdateNodeAttrs, values of currently disabled features); an attribute whose value
    # is None and a missing attribute are the same observation
    d["all_node_attrs"] = {
        int(n): tuple(sorted((str(k), norm(v)) for k, v in a.items() if v is not None))
        for n, a in g.nodes(data=True)
    }
    d["all_edge_attrs"] = {
        (int(u), int(v)): tuple(sorted((str(k), norm(x)) for k, x in a.items()
                                       if x is not None))
        for u, v, a in g.edges(data=True)
    }
    return d


STATE_SECTIONS = ("nodes", "edges", "seg", "all_node_attrs", "all_edge_attrs")


def deep(tracks, counters: bool = False) -> dict:
    """Everything the properties call 'state': canon plus scale, registry, annotator
    activation, lookup tables, history stacks."""
    g = tracks.graph
    d = canon(tracks)
    d["graph_attrs"] = tuple(sorted((str(k), repr(norm(v))) for k, v in g.graph.items()))
    seg_ = tracks.segmentation
    d["seg_flags"] = None if seg_ is None else (
        type(seg_).__name__, bool(getattr(getattr(seg_, "flags", None), "writeable", True)),
        str(getattr(seg_, "dtype", "")))
    d["scale"] = None if tracks.scale is None else norm(list(tracks.scale))
    f = tracks.features
    d["features"] = {k: norm(dict(v)) for k, v in f.items()}
    # ... and literally (a tuple turned into a list is a modification of the registry)
    d["features_literal"] = {k: repr(sorted((str(a), repr(b)) for a, b in dict(v).items()))
                             for k, v in f.items()}
    d["feature_keys"] = (
        f.time_key,
        norm(f.position_key),
        f.tracklet_key,
        f.lineage_key,
    )
    d["annotators"] = tuple(
        (type(a).__name__, tuple(sorted((k, bool(on)) for k, (_, on) in a.all_features.items())))
        for a in tracks.annotators
    )
    ta = getattr(tracks, "track_annotator", None)
    if ta is not None:
        d["tracklet_map"] = {
            int(k): tuple(sorted(int(x) for x in v)) for k, v in ta.tracklet_id_to_nodes.items()
        }
        d["lineage_map"] = {
            int(k): tuple(sorted(int(x) for x in v)) for k, v in ta.lineage_id_to_nodes.items()
        }
    h = tracks.action_history
    d["undo_stack"] = tuple(id(a) for a in h.undo_stack)
    d["redo_stack"] = tuple(id(a) for a in h.redo_stack)
    if counters:
        d["counters"] = (
            getattr(ta, "max_tracklet_id", None),
            getattr(ta, "max_lineage_id", None),
            tracks.node_id_counter,
        )
    return d


def diff(a: dict, b: dict, limit: int = 12) -> list[str]:
    """Human-readable differences between two canon/deep dicts."""
    out: list[str] = []
    for sect in sorted(set(a) | set(b)):
        x, y = a.get(sect), b.get(sect)
        if x == y:
            continue
        if isinstance(x, dict) and isinstance(y, dict):
            for k in sorted(set(x) | set(y), key=repr):
                if k not in x:
                    out.append(f"{sect}[{k}]: absent -> {y[k]!r}")
                elif k not in y:
                    out.append(f"{sect}[{k}]: {x[k]!r} -> absent")
                elif x[k] != y[k]:
                    if isinstance(x[k], dict) and isinstance(y[k], dict):
                        for kk in sorted(set(x[k]) | set(y[k]), key=repr):
                            if x[k].get(kk) != y[k].get(kk):
                                out.append(
                                    f"{sect}[{k}].{kk}: {x[k].get(kk)!r} -> {y[k].get(kk)!r}"
                                )
                    else:
                        out.append(f"{sect}[{k}]: {x[k]!r} -> {y[k]!r}")
                if len(out) >= limit:
                    return out
        else:
            out.append(f"{sect}: {x!r} -> {y!r}")
        if len(out) >= limit:
            break
    return out


def diff_sections(a: dict, b: dict) -> tuple[str, ...]:
    return tuple(s for s in sorted(set(a) | set(b)) if a.get(s) != b.get(s))
