"""Session driver: builds real tracks, executes ops under the shim, hands every step
(pre-state, op, outcome, post-state, event window) to the monitors."""

from __future__ import annotations

import random
import traceback
from dataclasses import dataclass, field
from typing import Any

from . import shim
from .canon import deep
from .gen import Config, build_tracks
from .ops import OpGen, Outcome, execute, named_of, role_of


@dataclass
class StepRec:
    i: int
    op: dict
    pre: dict
    post: dict
    out: Outcome
    window: list
    summary: dict
    named: dict
    roles: dict
    subs: list = field(default_factory=list)  # (class, ok, state) per top-level action inside


class Monitor:
    """Base class. A monitor counts what it really compared (evals), the distinct
    non-trivial situations it saw (keys) and named counters used for coverage floors."""

    name = "monitor"

    def __init__(self):
        self.evals = 0
        self.keys: set[str] = set()
        self.counters: dict[str, int] = {}

    def count(self, k, n=1):
        self.counters[k] = self.counters.get(k, 0) + n

    def start(self, sess: "Session") -> list:
        return []

    def step(self, sess: "Session", rec: StepRec) -> list:
        return []

    def finish(self, sess: "Session") -> list:
        return []


def violation(clause: str, what: str, key: str, **extra) -> dict:
    d = {"clause": clause, "what": what, "key": key}
    d.update(extra)
    return d


class Session:
    def __init__(self, cfg: Config, monitors: list[Monitor], tracks=None):
        shim.install()
        shim.REC.reset()
        self.cfg = cfg
        if tracks is None:
            self.tracks, self.forest, self.rng0 = build_tracks(cfg)
        else:
            self.tracks = tracks
        shim.attach(self.tracks)
        self.monitors = monitors
        self.ops: list[dict] = []
        self.violations: list[dict] = []
        self.nsteps = 0
        self.hang = False
        self.init_state = deep(self.tracks)
        self.state_hashes: set[int] = set()
        for m in monitors:
            self._collect(m.start(self), -1)

    def _collect(self, vs, step):
        for v in vs or []:
            v = dict(v)
            v["step"] = step
            self.violations.append(v)

    def step(self, op: dict) -> StepRec:
        t = self.tracks
        pre = deep(t)
        named = named_of(t, op)
        roles = {n: role_of(t.graph, n) for n in named["nodes"]}
        mark = shim.REC.mark()
        subs: list = []
        if op.get("op") == "reload":
            # the tracks are saved, loaded again, and the session goes on with the LOADED
            # object (its history is empty, its id tables were initialised from the ids on
            # the graph)
            import shutil
            import warnings

            from funtracks.import_export import load_tracks, save_tracks

            from . import env
            from .ops import Outcome as _Outcome

            wd = env.workdir("reload")
            try:
                with warnings.catch_warnings():
                    warnings.simplefilter("ignore")
                    save_tracks(t, wd / "s")
                    new = load_tracks(wd / "s", solution=True)
                self.tracks = new
                shim.attach(new)
                out = _Outcome(ok=True, ret="reload", info={})
            except Exception as e:
                out = _Outcome(ok=False, exc_type=type(e).__name__, exc_msg=str(e)[:300],
                               info={})
            finally:
                shutil.rmtree(wd, ignore_errors=True)
            t = self.tracks
        elif op.get("op") == "ctrl":
            # one call, several top-level user actions: remember the state after each
            from .canon import canon as _canon

            class _Sub:
                def before(self, name, obj, a, k):
                    return {"name": name}

                def after(self, name, tok, exc, ret):
                    subs.append((name, exc is None, _canon(t) if exc is None else None))

            obs = _Sub()
            shim.OBSERVERS.append(obs)
            try:
                out = execute(t, op)
            finally:
                shim.OBSERVERS.remove(obs)
        else:
            out = execute(t, op)
        window = shim.REC.window(mark)
        if out.exc_type == "HANG":
            self.hang = True
            shim.REC.depth = 0
        post = deep(t)
        rec = StepRec(self.nsteps, op, pre, post, out, window, shim.summarize(window), named,
                      roles, subs)
        self.ops.append(op)
        self.nsteps += 1
        # distinct states visited (graph shape + ids + label array digest)
        self.state_hashes.add(hash((tuple(sorted(post["edges"])),
                                    tuple(sorted(post["all_node_attrs"].items())),
                                    post["seg"])))
        for m in self.monitors:
            self._collect(m.step(self, rec), rec.i)
        return rec

    def finish(self):
        for m in self.monitors:
            self._collect(m.finish(self), self.nsteps)

    def replay_doc(self, prop: str, extra: dict | None = None) -> dict:
        d = {
            "property": prop,
            "config": self.cfg.to_json(),
            "ops": self.ops,
            "violations": self.violations[:5],
        }
        if extra:
            d.update(extra)
        return d


def run_random_session(cfg: Config, monitors: list[Monitor], seed: int, nsteps: int,
                       weights=None, refusal_rate=1.0, stop_on_violation=True,
                       opgen=None, tail=None) -> Session:
    """tail: optional callable (gen, tracks) -> list of ops executed after the random part
    (for steps after which the older history is not meant to be walked any more)."""
    rng = random.Random(seed)
    sess = Session(cfg, monitors)
    gen = (opgen or OpGen)(cfg, rng, weights=weights, refusal_rate=refusal_rate)
    if sess.violations and stop_on_violation:
        return sess
    for _ in range(nsteps):
        op = gen.next(sess.tracks)
        sess.step(op)
        try:
            gen.note(op, sess.tracks)
        except Exception:
            pass
        if sess.hang or (sess.violations and stop_on_violation):
            return sess
    if tail is not None:
        for mk in tail:
            op = mk(gen, sess.tracks)
            if op is None:
                continue
            sess.step(op)
            if sess.hang or (sess.violations and stop_on_violation):
                return sess
        sess.tail_done = True
    sess.finish()
    return sess


def run_ops_session(cfg: Config, monitors: list[Monitor], ops: list[dict],
                    stop_on_violation=True) -> Session:
    sess = Session(cfg, monitors)
    if sess.violations and stop_on_violation:
        return sess
    for op in ops:
        sess.step(op)
        if sess.hang or (sess.violations and stop_on_violation):
            return sess
    sess.finish()
    return sess
