"""Runner: shards a check over subprocesses, merges results, classifies violations against
known_findings.json, writes evidence and replay files, prints the verdict.

exit 0  held on everything explored (KNOWN-FINDING lines allowed)
exit 1  VIOLATION property=<id> replay=<path>
exit 2  INCONCLUSIVE property=<id> reason=...
"""

from __future__ import annotations

import argparse
import hashlib
import importlib
import json
import os
import shutil
import subprocess
import sys
import time
import traceback
from concurrent.futures import ThreadPoolExecutor
from pathlib import Path

from . import env

VERIF = env.VERIF


def mod_for(prop: str):
    return importlib.import_module(f"fv.props.{prop.lower()}")


def jdefault(o):
    import numpy as np

    if isinstance(o, np.generic):
        return o.item()
    if isinstance(o, np.ndarray):
        return o.tolist()
    if isinstance(o, (set, frozenset)):
        return sorted(o, key=repr)
    if isinstance(o, tuple):
        return list(o)
    return repr(o)


def dump(obj, path: Path):
    path.parent.mkdir(parents=True, exist_ok=True)
    tmp = path.with_suffix(path.suffix + ".tmp")
    with open(tmp, "w") as f:
        json.dump(obj, f, default=jdefault, indent=1)
    os.replace(tmp, path)


def run_shard_file(path: str) -> int:
    spec = json.load(open(path))
    out = Path(spec["_out"])
    try:
        from . import reach

        reach_on = os.environ.get("FV_REACH", "1") != "0" and \
            reach.start(str(env.REPO / "src"))
        env.bootstrap(need_contracts=True)
        m = mod_for(spec["_prop"])
        t0 = time.time()
        res = m.run_shard(spec)
        res["wall_s"] = time.time() - t0
        if reach_on:
            res["reach"] = reach.snapshot()
    except Exception:
        res = {"error": traceback.format_exc()}
    dump(res, out)
    return 0


def _session_note() -> str:
    from .props import common

    return common.SESSION_NOTE


def anchor_files(prop: str) -> list[str]:
    try:
        for line in open(VERIF / "properties.jsonl"):
            d = json.loads(line)
            if d.get("id") == prop:
                return list(d.get("anchors", {}).get("files", []))
    except Exception:
        pass
    return []


def load_known() -> list[dict]:
    p = VERIF / "known_findings.json"
    if not p.exists():
        return []
    return json.load(open(p)).get("findings", [])


def main(argv=None) -> int:
    ap = argparse.ArgumentParser()
    ap.add_argument("prop", nargs="?")
    ap.add_argument("--tier", default=os.environ.get("VERIF_TIER", "quick"))
    ap.add_argument("--seed", type=int, default=int(os.environ.get("VERIF_SEED", "0")))
    ap.add_argument("--replay")
    ap.add_argument("--shard")
    ap.add_argument("--jobs", type=int, default=int(os.environ.get("FV_JOBS", "16")))
    ap.add_argument("--no-evidence", action="store_true")
    a = ap.parse_args(argv)
    if a.shard:
        return run_shard_file(a.shard)
    prop = a.prop.upper()
    if a.replay:
        return do_replay(prop, a.replay)
    tier = a.tier if a.tier in ("quick", "thorough") else "quick"
    t0 = time.time()
    env.bootstrap(need_contracts=True)
    m = mod_for(prop)
    specs = m.plan(tier, a.seed)
    work = env.workdir(f"{prop}-{tier}")
    procs = []
    for i, s in enumerate(specs):
        s["_prop"] = prop
        s["_tier"] = tier
        s["_out"] = str(work / f"out-{i}.json")
        dump(s, work / f"shard-{i}.json")
    timeout = getattr(m, "SHARD_TIMEOUT", {"quick": 600, "thorough": 3000})[tier]
    envv = dict(os.environ)
    envv["PYTHONHASHSEED"] = "0"
    envv["PYTHONPATH"] = str(VERIF) + os.pathsep + envv.get("PYTHONPATH", "")
    envv[env.GUARD] = "1"
    # numerical libraries: one thread per shard, the shards provide the parallelism
    for v in ("OMP_NUM_THREADS", "OPENBLAS_NUM_THREADS", "MKL_NUM_THREADS"):
        envv[v] = "1"

    def run_one(i):
        try:
            p = subprocess.run(
                [sys.executable, "-m", "fv.runner", "--shard", str(work / f"shard-{i}.json")],
                cwd=str(VERIF), env=envv, timeout=timeout, capture_output=True, text=True,
            )
            outp = work / f"out-{i}.json"
            if outp.exists():
                return json.load(open(outp))
            return {"error": f"shard {i} produced no output; rc={p.returncode}\n"
                    + p.stderr[-2000:]}
        except subprocess.TimeoutExpired:
            return {"timeout": True}

    with ThreadPoolExecutor(max_workers=max(1, a.jobs)) as ex:
        results = list(ex.map(run_one, range(len(specs))))
    shutil.rmtree(work, ignore_errors=True)

    # ---- merge
    evaluations = 0
    keys: set[str] = set()
    counters: dict[str, int] = {}
    samples = []
    violations = []
    errors = []
    timeouts = 0
    extra: dict = {}
    reached: dict[str, set[int]] = {}
    for r in results:
        for fn, ls in (r.get("reach") or {}).items():
            reached.setdefault(fn, set()).update(ls)
        if r.get("timeout"):
            timeouts += 1
            continue
        if "error" in r:
            errors.append(r["error"])
            continue
        evaluations += int(r.get("evaluations", 0))
        keys.update(r.get("keys", []))
        for k, v in r.get("counters", {}).items():
            counters[k] = counters.get(k, 0) + v
        if len(samples) < 4:
            samples.extend(r.get("samples", [])[:1])
        violations.extend(r.get("violations", []))
        for k, v in r.get("extra", {}).items():
            if isinstance(v, (int, float)):
                extra[k] = extra.get(k, 0) + v
            elif isinstance(v, list):
                extra.setdefault(k, [])
                for x in v:
                    if x not in extra[k] and len(extra[k]) < 200:
                        extra[k].append(x)
            else:
                extra[k] = v

    known = [k for k in load_known() if k.get("property") == prop
             and k.get("status") == "known"]
    known_hit: dict[str, dict] = {}
    new_viol = []
    for v in violations:
        kf = next((k for k in known if v.get("key", "").startswith(k["key"])), None)
        if kf is not None:
            known_hit.setdefault(kf["key"], kf)
        else:
            new_viol.append(v)

    floors = m.floors(tier) if hasattr(m, "floors") else {}
    unmet = {k: (counters.get(k, 0), need) for k, need in floors.items()
             if counters.get(k, 0) < need}

    lines = []
    rc = 0
    for k in known_hit.values():
        lines.append(f"KNOWN-FINDING: property={prop} {k['what']} [{k['key']}]")
    replay_dir = VERIF / "replays"
    seen_keys = set()
    for v in new_viol:
        if v.get("key") in seen_keys and len(seen_keys) >= 1:
            continue
        seen_keys.add(v.get("key"))
        doc = v.get("replay", {})
        doc["property"] = prop
        doc["key"] = v.get("key")
        doc["clause"] = v.get("clause")
        doc["what"] = v.get("what")
        h = hashlib.sha1(json.dumps(doc, default=jdefault, sort_keys=True).encode()).hexdigest()
        path = replay_dir / f"{prop}-{h[:12]}.json"
        dump(doc, path)
        lines.append(f"VIOLATION property={prop} replay={path}")
        lines.append(f"  clause={v.get('clause')} key={v.get('key')}")
        lines.append(f"  what={str(v.get('what'))[:400]}")
        rc = 1
        if len(seen_keys) >= 8:
            break
    if rc == 0:
        if errors:
            lines.append(f"INCONCLUSIVE property={prop} reason=harness-error")
            lines.append(errors[0][-3000:])
            rc = 2
        elif timeouts:
            lines.append(f"INCONCLUSIVE property={prop} reason=watchdog ({timeouts} shards)")
            rc = 2
        elif counters.get("harness_errors", 0):
            lines.append(f"INCONCLUSIVE property={prop} reason=harness-errors "
                         f"{extra.get('harness_error_samples', [''])[0]}")
            rc = 2
        elif unmet:
            lines.append(f"INCONCLUSIVE property={prop} reason=coverage-floors-unmet {unmet}")
            rc = 2
    wall = time.time() - t0
    if not a.no_evidence:
        cov = {
            "evaluations": int(evaluations),
            "distinct_nontrivial": len(keys),
            "rule": getattr(m, "RULE", "") + (_session_note() if hasattr(m, "make_monitors")
                                              else ""),
            "samples": samples[:4] or [{"note": "no sample recorded"}],
            "exhaustive": bool(getattr(m, "EXHAUSTIVE", {}).get(tier, False)),
            "counters": dict(sorted(counters.items())),
            "floors": floors,
            "floors_unmet": {k: list(v) for k, v in unmet.items()},
            "shards": len(specs),
            "shard_timeouts": timeouts,
            "shard_errors": len(errors),
            "distinct_keys_sample": sorted(keys)[:60],
            "known_findings_seen": sorted(known_hit),
            "verdict": {0: "held", 1: "violated", 2: "inconclusive"}[rc],
        }
        cov.update(extra)
        if reached:
            from . import reach

            cov["reach_of_anchor_files"] = reach.report(str(env.REPO / "src"), reached,
                                                        anchor_files(prop))
        ev = {
            "property_id": prop,
            "tier": tier,
            "seed": a.seed,
            "level": getattr(m, "LEVEL", "exploration"),
            "coverage": cov,
            "assumptions": getattr(m, "ASSUMPTIONS", []),
            "wall_s": round(wall, 2),
            "violations": len(new_viol),
        }
        dump(ev, VERIF / "evidence" / f"{prop}.json")
    for l in lines:
        print(l)
    verdict = {0: "HELD", 1: "VIOLATED", 2: "INCONCLUSIVE"}[rc]
    print(f"{verdict} property={prop} tier={tier} seed={a.seed} evaluations={evaluations} "
          f"distinct={len(keys)} shards={len(specs)} wall={wall:.1f}s")
    return rc


def do_replay(prop: str, path: str) -> int:
    env.bootstrap(need_contracts=True)
    m = mod_for(prop)
    doc = json.load(open(path))
    vs = m.replay(doc)
    known = [k for k in load_known() if k.get("property") == prop
             and k.get("status") == "known"]
    rc = 0
    for v in vs:
        if any(v.get("key", "").startswith(k["key"]) for k in known):
            print(f"KNOWN-FINDING: property={prop} {v.get('key')}")
            continue
        print(f"VIOLATION property={prop} replay={path}")
        print(f"  clause={v.get('clause')} key={v.get('key')}")
        print(f"  what={str(v.get('what'))[:600]}")
        rc = 1
    if rc == 0:
        print(f"REPLAY-CLEAN property={prop} replay={path}")
    return rc


if __name__ == "__main__":
    sys.exit(main())
